#!/bin/bash
# Builds the framework offline: merged vendor directory, compiler driver, warm dependency cache.
set -euo pipefail
cd "$(dirname "$0")"
export CARGO_NET_OFFLINE=true
python3 tools/mkvendor.py /verif/.vendor
( cd driver && cargo +nightly build --release --offline 2>&1 | tail -3 )
test -x driver/target/release/swv-driver
# warm the dependency caches (one workspace config and the shims); failures here are reported by the checks
python3 rules/main.py warm || true
echo "setup done"
