"""Accepted-value expression trees with inlining of local callees, and their interpretation in
the polynomial domain (poly.py). Works on loop-free functions whose accepting exit assigns the
return place exactly once (Ok(x), a delegating call, or a plain value)."""
import cfg
import exprtree
import poly
from facts import AnalysisIncomplete
from literals import P


class NotStraight(Exception):
    pass


def accepted_trees(db, fn):
    """list of (bb, tree) — one per accepting assignment of the return place"""
    T = exprtree.Trees(db, fn)
    out = []
    if not cfg.returns_result(fn):
        return [(None, T.local(0))]
    acc, _ = cfg.exit_blocks(fn)
    for bi in sorted(acc):
        b = fn.blocks[bi]
        for s in b['stmts']:
            if s['k'] == 'assign' and s['place']['l'] == 0 and not s['place']['p']:
                rv = s['rv']
                if rv['k'] == 'agg' and rv.get('adt') == 'core::result::Result' and rv['variant'] == 'Ok':
                    out.append((bi, T.operand(rv['ops'][0])))
                else:
                    out.append((bi, T.rvalue(rv, 0)))
        t = b['term']
        if t['k'] == 'call' and t.get('dest') and t['dest']['l'] == 0 and not t['dest']['p']:
            out.append((bi, T.call(t, 0, bi)))
    return out


def substitute(tree, args):
    if not isinstance(tree, tuple) or not tree:
        return tree
    if tree[0] == 'arg':
        return args[tree[1] - 1] if tree[1] - 1 < len(args) else tree
    if tree[0] == 'agg':
        return ('agg', tree[1], tree[2], {k: substitute(v, args) for k, v in tree[3].items()})
    return tuple(substitute(x, args) if isinstance(x, tuple) else x for x in tree)


def expand(db, tree, depth=0, select=None):
    """inline calls to local straight-line functions (their single accepted value)"""
    if not isinstance(tree, tuple) or not tree or depth > 12:
        return tree
    if tree[0] == 'agg':
        return ('agg', tree[1], tree[2], {k: expand(db, v, depth, select) for k, v in tree[3].items()})
    t = tuple(expand(db, x, depth, select) if isinstance(x, tuple) else x for x in tree)
    head = t[0]
    if isinstance(head, str) and head in db.fns and db.fns[head].has_mir:
        callee = db.fns[head]
        accs = accepted_trees(db, callee)
        if select is not None:
            accs = select(callee, accs)
        if len(accs) != 1:
            raise NotStraight(f'{head}: {len(accs)} accepting assignments')
        body = substitute(accs[0][1], list(t[1:]))
        return expand(db, body, depth + 1, select)
    return t


class PolyEval:
    """interpret an expanded tree as a polynomial; `leaf(tree)` maps input leaves to polynomials"""

    def __init__(self, leaf):
        self.leaf = leaf

    def index(self, base, idx):
        """resolve base[idx] where base may be a slice view of a vector"""
        off = 0
        while True:
            if isinstance(base, tuple) and base[0] in ('to_vec', 'to_owned', 'clone', 'iter', 'as_slice') and len(base) == 2:
                base = base[1]
                continue
            if isinstance(base, tuple) and base[0] == 'proj' and isinstance(base[2], tuple) and base[2][0] == 'idx':
                r = base[2][1]
                if isinstance(r, tuple) and r[0] == 'agg' and r[1].startswith('core::ops::range::Range'):
                    s = r[3].get('start')
                    if s is None or s[0] != 'val':
                        raise NotStraight('slice start is not a constant')
                    off += s[1]
                    base = base[1]
                    continue
            if isinstance(base, tuple) and base[0] == 'proj' and base[2] in ('0', '1') and isinstance(base[1], tuple) \
                    and base[1] and isinstance(base[1][0], str) and base[1][0].split('::')[-1] in ('split_at', 'split_at_mut') \
                    and len(base[1]) == 3:
                # xs.split_at(k): .0 = xs[..k], .1 = xs[k..]
                k = base[1][2]
                if not (isinstance(k, tuple) and k[0] == 'val'):
                    raise NotStraight('split_at position is not a constant')
                if base[2] == '1':
                    off += k[1]
                base = base[1][1]
                continue
            break
        return self.leaf(('proj', base, ('idx', ('val', off + idx))))

    def ev(self, t):
        if not isinstance(t, tuple) or not t:
            raise NotStraight(f'non-tree {t!r}')
        h = t[0]
        if h == 'val':
            return poly.const(t[1])
        if h in ('add',):
            return poly.add(self.ev(t[1]), self.ev(t[2]))
        if h in ('sub',):
            return poly.sub(self.ev(t[1]), self.ev(t[2]))
        if h in ('mul',):
            return poly.mul(self.ev(t[1]), self.ev(t[2]))
        if h == 'neg' or h == 'Neg':
            return poly.neg(self.ev(t[1]))
        if h == 'proj' and isinstance(t[2], tuple) and t[2][0] == 'idx':
            i = t[2][1]
            if isinstance(i, tuple) and i[0] == 'val':
                return self.index(t[1], i[1])
        if h == 'proj' and isinstance(t[2], tuple) and t[2][0] == 'cidx' and t[2][2] is False:
            return self.index(t[1], t[2][1])       # slice pattern [x0, x1, ..]: constant index from the front
        r = self.leaf(t)
        if r is None:
            raise NotStraight('unsupported node ' + exprtree.show(t)[:120])
        return r
