"""A9 field-flow coverage: which parameter fields reach which binding sinks (hash arguments,
value guards) from an entry point, with callee sinks substituted up the call chain and sinks in
callees whose verdict does not propagate discarded."""
import re
import dataflow


def canon(leaf):
    """a1.x.0[*].y -> a1.x.y ; len(a1.x) -> a1.x"""
    if leaf.startswith('len('):
        leaf = leaf[4:-1]
    leaf = leaf.replace('[*]', '')
    leaf = re.sub(r'\.\d+(?=\.|$)', '', leaf)
    return leaf


def type_closure(db, ty, prefix):
    """leaf fields of a struct type as canonical access paths: [(path, type, is_vector_element)]"""
    out = []

    def expand(ty, pre, vec):
        ty = ty.strip()
        m = re.match(r'^alloc::vec::Vec<(.*)>$', ty)
        if m:
            return expand(m.group(1), pre, True)
        m = re.match(r'^core::option::Option<(.*)>$', ty)
        if m:
            return expand(m.group(1), pre, vec)
        a = db.adts.get(ty)
        if a and a['kind'] == 'struct':
            for f in a['variants'][0]['fields']:
                name = f['name']
                expand(f['ty'], pre if name.isdigit() else pre + '.' + name, vec)
            return
        out.append((pre, ty, vec))
    expand(ty, prefix, False)
    return out


class SinkMap:
    def __init__(self, db, entry, binding=None):
        self.db = db
        self.guards = dataflow.effective_guards(db, entry, binding, sinks=True)
        self.by_field = {}
        for g in self.guards:
            kind = getattr(g, 'kind', None)
            if kind and kind.startswith('hash'):
                k = 'hash'
            elif kind in ('discr', 'bounds'):
                k = 'presence'
            else:
                k = 'guard'
            for lf in g.lhs | g.rhs:
                if lf.startswith('a') or lf.startswith('len(a'):
                    is_len = lf.startswith('len(')
                    self.by_field.setdefault(canon(lf), set()).add(('len-' + k if is_len else k, g.fn, g.line, g.rel))

    def kinds(self, field):
        """sink kinds reached by `field` (canonical path) or any of its sub-paths"""
        out = set()
        for f, ks in self.by_field.items():
            if f == field or f.startswith(field + '.'):
                out |= ks
        return out
