"""Pretty printer for MIR-lite facts (debugging aid): python3 rules/pp.py <config> <fn-regex>"""
import sys
import os

sys.path.insert(0, os.path.dirname(__file__))
import extract
import facts


def short(s):
    import re
    return re.sub(r'(\w+::)+', '', s)


def place(p):
    s = f"_{p['l']}"
    for e in p['p']:
        if e == '*':
            s = f'(*{s})'
        elif isinstance(e, dict) and 'f' in e:
            s = f"{s}.{e.get('n', e['f'])}"
        elif isinstance(e, dict) and 'i' in e:
            s = f"{s}[_{e['i']}]"
        elif isinstance(e, dict) and 'ci' in e:
            s = f"{s}[{'-' if e['from_end'] else ''}{e['ci']}]"
        elif isinstance(e, dict) and 'dc' in e:
            s = f"({s} as {e['n']})"
        elif isinstance(e, dict) and 'sub' in e:
            s = f"{s}[{e['sub'][0]}..{e['sub'][1]}]"
        else:
            s = f'{s}.?'
    return s


def operand(o):
    if 'cp' in o:
        return place(o['cp'])
    if 'mv' in o:
        return 'move ' + place(o['mv'])
    c = o['c']
    if 'fn' in c:
        return 'fn ' + short(c['fn'])
    if 'val' in c:
        return f"const {c['val']}_{short(c['ty'])}" + (f" /*{short(c['def'])}*/" if 'def' in c else '')
    if 'def' in c:
        return 'const ' + short(c['def']) + (f"::promoted[{c['promoted']}]" if 'promoted' in c else '')
    if 'str' in c:
        return c['str']
    return 'const ' + short(c.get('ty', '?'))


def rvalue(r):
    k = r['k']
    if k == 'use':
        return operand(r['a'])
    if k == 'ref':
        return ('&mut ' if r['mut'] else '&') + place(r['place'])
    if k == 'rawptr':
        return '&raw ' + place(r['place'])
    if k == 'bin':
        return f"{r['op']}({operand(r['a'])}, {operand(r['b'])})"
    if k == 'un':
        return f"{r['op']}({operand(r['a'])})"
    if k == 'cast':
        return f"{operand(r['a'])} as {short(r['to'])} ({r['ck']})"
    if k == 'discr':
        return f"discriminant({place(r['place'])})"
    if k == 'agg':
        ops = ', '.join(operand(x) for x in r['ops'])
        if r['agg'] == 'adt':
            return f"{short(r['adt'])}::{r['variant']}({ops})"
        if r['agg'] == 'closure':
            return f"closure {short(r['closure'])}({ops})"
        return f"{r['agg']}({ops})"
    if k == 'repeat':
        return f"[{operand(r['a'])}; _]"
    return r.get('s', k)


def term(t):
    k = t['k']
    if k == 'call':
        f = t['f']
        name = short(f.get('resolved_full') or f.get('full') or '?') if not f.get('indirect') else 'indirect'
        if not f.get('is_resolved', True):
            name = 'UNRESOLVED ' + short(f.get('full', '?'))
        args = ', '.join(operand(a) for a in t.get('args', []))
        return f"{place(t['dest'])} = {name}({args}) -> bb{t.get('target')}"
    if k == 'switch':
        return f"switch {operand(t['op'])} {[(v, b) for v, b in t['targets']]} otherwise bb{t['otherwise']}"
    if k == 'assert':
        return f"assert({'!' if not t['expected'] else ''}{operand(t['cond'])}, {t['msg']}) -> bb{t['target']}"
    if k in ('goto',):
        return f"goto bb{t['target']}"
    if k == 'drop':
        return f"drop({place(t['place'])}) -> bb{t['target']}"
    return k


def pp(fn):
    print(f'fn {fn.path}  [{fn.file}:{fn.span["lo"]}]')
    for i, l in enumerate(fn.locals):
        print(f"  let _{i}: {short(l['ty'])}" + (f"  // {l['name']}" if 'name' in l else ''))
    for i, b in enumerate(fn.blocks):
        if b.get('cleanup'):
            continue
        print(f'  bb{i}:')
        for s in b['stmts']:
            if s['k'] == 'assign':
                print(f"    {place(s['place'])} = {rvalue(s['rv'])};   // L{s['line']}")
            elif s['k'] == 'setdiscr':
                print(f"    discriminant({place(s['place'])}) = {s['variant']};")
        print(f"    {term(b['term'])}   // L{b['term']['line']}")
    for i, p in enumerate(fn.d.get('promoted', [])):
        print(f'  promoted[{i}]:', [rvalue(x) if x.get('k') != 'call' else 'call ' + short(x['f'].get('full', '?')) for x in p])


if __name__ == '__main__':
    cfg, rx = sys.argv[1], sys.argv[2]
    db = facts.DB(extract.extract(cfg), cfg)
    for f in db.find_fns(rx):
        if f.has_mir:
            pp(f)
        else:
            print('fn', f.path, 'skipped' if f.skipped else 'compact')
