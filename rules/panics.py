"""A10 panic-site inventory."""
import common
from facts import op_place

PARTIAL_CALLS = {
    # callee name -> (required path prefix or None)
    'unwrap': ('core::option::Option', 'core::result::Result'),
    'expect': ('core::option::Option', 'core::result::Result'),
    'unwrap_unchecked': ('core::option::Option', 'core::result::Result'),
    'unwrap_err': ('core::result::Result',),
    'expect_err': ('core::result::Result',),
    'index': ('core::ops::index::Index', '<alloc::vec::Vec', '<[', 'core::slice', 'alloc::vec', '<regex', '<str', 'core::str', '<alloc::string', 'regex'),
    'index_mut': ('core::ops::index::IndexMut', '<alloc::vec::Vec', '<[', 'core::slice', 'alloc::vec'),
    'drain': ('alloc::vec::Vec',),
    'remove': ('alloc::vec::Vec',),
    'swap_remove': ('alloc::vec::Vec',),
    'split_at': ('core::slice', 'core::str'),
    'split_off': ('alloc::vec::Vec',),
    'copy_from_slice': ('core::slice',),
    'insert': ('alloc::vec::Vec',),
    'truncate': (),
    'from_hex_unchecked': ('starknet_types_core::felt::Felt',),
    'from_felt_unchecked': ('starknet_types_core::felt',),
    'div': ('core::ops::arith::Div',),
    'rem': ('core::ops::arith::Rem',),
    'sub': ('core::ops::arith::Sub',),      # only for primitive integer refs (<&u32 as Sub<&u32>>::sub)
    'pow': ('core::num',),
    'from_dec_str': (),
    'swap': ('core::slice',),
    'chunks': ('core::slice',), 'chunks_exact': ('core::slice',), 'windows': ('core::slice',),
    'step_by': ('core::iter',),
    'log2': ('core::num',), 'ilog2': ('core::num',),
}
IGNORED_ASSERTS = {'MisalignedPtr', 'NullPtr', 'InvalidEnum'}


def sites(db, fn):
    """list of dict(kind, detail, bb, line, term) for every potential panic site of fn (MIR body)"""
    out = []
    for bi, b in enumerate(fn.blocks):
        if b.get('cleanup'):
            continue
        t = b['term']
        if t['k'] == 'assert':
            if t['msg'] in IGNORED_ASSERTS:
                continue
            out.append({'kind': 'assert', 'detail': t['msg'], 'bb': bi, 'line': t['line'], 'term': t})
        elif t['k'] == 'call':
            f = t['f']
            if f.get('indirect'):
                continue
            name = f.get('name', '')
            path = f.get('resolved') or f.get('path') or ''
            if f.get('diverges'):
                mac = t.get('macro') or ''
                out.append({'kind': 'diverge', 'detail': (mac or name), 'bb': bi, 'line': t['line'], 'term': t})
                continue
            if path in db.fns:
                continue
            pre = PARTIAL_CALLS.get(name)
            if pre is None:
                continue
            full = f.get('full') or path
            tp = f.get('path') or ''
            if pre and not any(path.startswith(p) or full.startswith(p) or tp.startswith(p) for p in pre):
                continue
            if name == 'sub' and 'Felt' in full:
                continue
            if name in ('div', 'rem', 'sub', 'pow') and not any(x in full for x in ('u8', 'u16', 'u32', 'u64', 'u128', 'usize', 'i32', 'i64', 'isize')):
                continue
            if name in ('from_hex_unchecked',):
                a = t.get('args', [])
                if a and 'c' in a[0]:
                    continue       # literal argument: checked by the literal tables
            out.append({'kind': 'call', 'detail': name, 'bb': bi, 'line': t['line'], 'term': t})
    return out


def compact_sites(fn):
    """summary sites for compact bodies: (detail, count)"""
    out = []
    for k, n in fn.d.get('assertsum', []):
        if k not in IGNORED_ASSERTS:
            out.append(('assert:' + k, n))
    for cs in fn.d.get('callsum', []):
        f = cs['f']
        name = f.get('name', '')
        if f.get('diverges'):
            out.append(('diverge:' + name, cs['n']))
        elif name in ('unwrap', 'expect', 'index', 'index_mut') and not (f.get('resolved') or '') .startswith('swiftness'):
            out.append(('call:' + name, cs['n']))
    return out
