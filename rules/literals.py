"""A14 literal tables: values of const items read from the HIR of their initialisers, and an
independent big-integer oracle for the Stark field. Nothing of the repository is executed."""
import hirlib as H

P = 2 ** 251 + 17 * 2 ** 192 + 1
TWO_ADICITY = 192
ODD_PART = (P - 1) >> TWO_ADICITY            # 2^59 + 17
ODD_FACTORS = [5, 7, 98714381, 166848103]    # checked by oracle_selfcheck()

BUILTIN = {
    'starknet_types_core::felt::Felt::ZERO': 0,
    'starknet_types_core::felt::Felt::ONE': 1,
    'starknet_types_core::felt::Felt::TWO': 2,
    'starknet_types_core::felt::Felt::THREE': 3,
    'starknet_types_core::felt::NonZeroFelt::ONE': 1,
    'starknet_types_core::felt::NonZeroFelt::TWO': 2,
    'starknet_types_core::felt::non_zero::NonZeroFelt::ONE': 1,
    'starknet_types_core::felt::non_zero::NonZeroFelt::TWO': 2,
}


def is_prime(n):
    if n < 2:
        return False
    for q in (2, 3, 5, 7, 11, 13, 17, 19, 23, 29, 31, 37):
        if n % q == 0:
            return n == q
    d, s = n - 1, 0
    while d % 2 == 0:
        d //= 2
        s += 1
    for a in (2, 3, 5, 7, 11, 13, 17, 19, 23, 29, 31, 37):
        x = pow(a, d, n)
        if x in (1, n - 1):
            continue
        for _ in range(s - 1):
            x = x * x % n
            if x == n - 1:
                break
        else:
            return False
    return True


def oracle_selfcheck():
    prod = 1
    for q in ODD_FACTORS:
        assert is_prime(q), q
        prod *= q
    assert prod == ODD_PART, 'factorisation of (p-1)/2^192'
    assert (P - 1) == ODD_PART << TWO_ADICITY
    assert is_prime(P)
    return True


def is_generator(g):
    """g generates F_p^* iff g^((p-1)/q) != 1 for every prime q | p-1"""
    return all(pow(g, (P - 1) // q, P) != 1 for q in [2] + ODD_FACTORS)


def parse_hex(s):
    s = s.strip()
    if s.startswith('0x') or s.startswith('0X'):
        s = s[2:]
    return int(s, 16)


def hir_literal_value(e):
    """value of a const initialiser: Felt::from_hex_unchecked("..") / integer literal /
    Felt::from(<int literal>)"""
    e = H.strip(e)
    t = H.tag(e)
    if t == 'lit':
        v = H.lit_int(e)
        if v is not None:
            return v
        return None
    if t == 'call':
        callee = H.path_of(e[1]) or ''
        if callee.endswith('::from_hex_unchecked') and len(e) == 3:
            s = H.lit_str(H.strip(e[2]))
            if s is not None:
                try:
                    return parse_hex(s)
                except ValueError:
                    return None
        if callee.endswith('::from') and len(e) == 3:
            return hir_literal_value(e[2])
    if t == 'cast':
        return hir_literal_value(e[1])
    return None


def const_value(db, path):
    if path in BUILTIN:
        return BUILTIN[path]
    c = db.consts.get(path)
    if c is None:
        return None
    if c.get('val') is not None:
        return int(c['val'])
    h = c.get('hir')
    if not h:
        return None
    return hir_literal_value(h['value'])
