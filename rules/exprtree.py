"""Def-use expression reconstruction for (mostly) straight-line MIR: turns an operand into a
normalised expression tree by following single definitions through temporaries, copies,
borrows and transparent conversions. Locals with several definitions become ('phi', n).
Used for structural comparison modulo temporaries, let-bindings and commutativity — no path
conditions, no solver."""
from facts import op_place
import common
import literals

TRANSPARENT = {'unwrap', 'expect', 'try_from', 'try_into', 'from', 'into', 'clone', 'deref',
               'borrow', 'as_ref', 'to_owned', 'branch', 'from_felt_unchecked', 'unwrap_unchecked',
               'as_slice', 'to_biguint', 'to_bigint', 'as_mut', 'deref_mut', 'borrow_mut', 'to_vec'}
COMMUTATIVE = {'add', 'mul', 'Add', 'Mul', 'eq', 'ne', 'Eq', 'Ne', 'BitAnd', 'BitOr', 'BitXor'}
BIN = {'Add': 'add', 'Sub': 'sub', 'Mul': 'mul', 'Div': 'div', 'Rem': 'rem',
       'AddWithOverflow': 'add', 'SubWithOverflow': 'sub', 'MulWithOverflow': 'mul'}


class Trees:
    def __init__(self, db, fn, max_depth=40):
        self.db = db
        self.fn = fn
        self.defs = common.defs_of(fn)
        self.max_depth = max_depth

    def const(self, c):
        if 'fn' in c:
            return ('fn', c['fn'])
        if 'promoted' in c:
            proms = self.fn.d.get('promoted', [])
            i = c['promoted']
            if i < len(proms):
                return self._promoted(proms[i])
            return ('promoted', i)
        if 'def' in c:
            v = literals.const_value(self.db, c['def'])
            if v is not None:
                return ('val', v)
            if 'val' in c:
                return ('val', int(c['val']))
            return ('const', c['def'])
        if 'val' in c:
            return ('val', int(c['val']))
        if 'str' in c:
            return ('str', c['str'])
        return ('const?', c.get('ty'))

    def _promoted(self, items):
        # promoted bodies here are tiny: a const, or an op over consts, then a reference to it
        last = None
        env = []
        for it in items:
            k = it.get('k')
            if k == 'use' and 'c' in it['a']:
                last = self.const(it['a']['c'])
            elif k == 'bin':
                a = self.const(it['a']['c']) if 'c' in it['a'] else last
                b = self.const(it['b']['c']) if 'c' in it['b'] else last
                last = self.norm((BIN.get(it['op'], it['op']), a, b))
            elif k == 'call':
                args = [self.const(a['c']) if 'c' in a else last for a in it.get('args', [])]
                nm = it['f'].get('name', '?')
                last = args[0] if nm in TRANSPARENT and args else self.norm((nm,) + tuple(args))
            elif k == 'ref':
                pass
            env.append(last)
        return last if last is not None else ('promoted?',)

    def norm(self, t):
        if isinstance(t, tuple) and t and t[0] in COMMUTATIVE and len(t) == 3:
            a, b = sorted([t[1], t[2]], key=repr)
            return (t[0], a, b)
        return t

    def operand(self, op, depth=0):
        pl = op_place(op)
        if pl is not None:
            return self.place(pl, depth)
        return self.const(op['c'])

    def place(self, pl, depth=0):
        base = self.local(pl['l'], depth)
        path = []
        for e in pl['p']:
            if e == '*':
                continue
            if isinstance(e, dict) and 'f' in e:
                if e.get('adt') in ('core::option::Option', 'core::result::Result',
                                    'core::ops::control_flow::ControlFlow'):
                    continue
                path.append(e.get('n', str(e['f'])))
            elif isinstance(e, dict) and 'i' in e:
                path.append(('idx', self.local(e['i'], depth + 1)))
            elif isinstance(e, dict) and 'ci' in e:
                path.append(('cidx', e['ci'], e['from_end']))
            elif isinstance(e, dict) and 'sub' in e:
                path.append(('sub', tuple(e['sub']), e['from_end']))
        for p in path:
            if isinstance(base, tuple) and base[0] == 'agg' and isinstance(p, str) and p in base[3]:
                base = base[3][p]
            else:
                base = ('proj', base, p)
        return base

    def local(self, l, depth=0):
        if 1 <= l <= self.fn.arg_count:
            return ('arg', l)
        if depth > self.max_depth:
            return ('deep', l)
        ds = self.defs.get(l, [])
        if len(ds) != 1:
            return ('phi', l)
        bi, kind, x = ds[0]
        if kind == 'assign':
            return self.rvalue(x, depth + 1)
        return self.call(x, depth + 1, bi)

    def rvalue(self, rv, depth):
        k = rv['k']
        if k in ('use', 'cast', 'repeat'):
            return self.operand(rv['a'], depth)
        if k in ('ref', 'rawptr'):
            return self.place(rv['place'], depth)
        if k == 'discr':
            return ('discr', self.place(rv['place'], depth))
        if k == 'bin':
            return self.norm((BIN.get(rv['op'], rv['op']), self.operand(rv['a'], depth),
                              self.operand(rv['b'], depth)))
        if k == 'un':
            if rv['op'] == 'PtrMetadata':
                return ('len', self.operand(rv['a'], depth))
            return (rv['op'], self.operand(rv['a'], depth))
        if k == 'agg':
            ops = [self.operand(o, depth) for o in rv['ops']]
            if rv.get('agg') == 'adt':
                if rv['adt'] in ('core::option::Option', 'core::result::Result') and len(ops) == 1:
                    return ops[0]
                names = rv.get('fields') or []
                return ('agg', rv['adt'], rv['variant'], dict(zip(names, ops)))
            if rv.get('agg') == 'closure':
                return ('closure', rv['closure'], tuple(ops))
            return (rv.get('agg', 'agg'),) + tuple(ops)
        return ('?', k)

    def call(self, t, depth, bi=None):
        f = t['f']
        name = f.get('name', '?')
        args = [self.operand(a, depth) for a in t.get('args', [])]
        path = f.get('resolved') if f.get('is_resolved') else f.get('path')
        local = path in self.db.fns if path else False
        if not local and name in TRANSPARENT and args:
            return args[0]
        if not local and name == 'len' and args:
            return ('len', args[0])
        if not local and name in ('index', 'get', 'get_unchecked') and len(args) == 2:
            return ('proj', args[0], ('idx', args[1]))
        label = path if local else name
        return self.norm((label,) + tuple(args))


def show(t, depth=0):
    if not isinstance(t, tuple) or not t:
        return repr(t)
    if t[0] == 'val':
        v = t[1]
        return hex(v) if v > 1 << 20 else str(v)
    if t[0] == 'arg':
        return f'a{t[1]}'
    if t[0] == 'agg':
        return t[1].split('::')[-1] + '{' + ', '.join(f'{k}: {show(v)}' for k, v in t[3].items()) + '}'
    if t[0] == 'proj':
        p = t[2]
        if isinstance(p, tuple):
            return f'{show(t[1])}[{show(p[1]) if p[0] == "idx" else p[1:]}]'
        return f'{show(t[1])}.{p}'
    head = t[0].split('::')[-1] if isinstance(t[0], str) else str(t[0])
    return head + '(' + ', '.join(show(x) for x in t[1:]) + ')'
