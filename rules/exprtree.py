"""Def-use expression reconstruction for (mostly) straight-line MIR: turns an operand into a
normalised expression tree by following single definitions through temporaries, copies,
borrows and transparent conversions. Locals with several definitions become ('phi', n).
Used for structural comparison modulo temporaries, let-bindings and commutativity — no path
conditions, no solver."""
from facts import op_place
import common
import literals

TRANSPARENT = {'unwrap', 'expect', 'try_from', 'try_into', 'from', 'into', 'clone', 'deref',
               'borrow', 'as_ref', 'to_owned', 'branch', 'from_felt_unchecked', 'unwrap_unchecked',
               'as_slice', 'to_biguint', 'to_bigint', 'as_mut', 'deref_mut', 'borrow_mut', 'to_vec'}
COMMUTATIVE = {'add', 'mul', 'Add', 'Mul', 'eq', 'ne', 'Eq', 'Ne', 'BitAnd', 'BitOr', 'BitXor'}
BIN = {'Add': 'add', 'Sub': 'sub', 'Mul': 'mul', 'Div': 'div', 'Rem': 'rem',
       'AddWithOverflow': 'add', 'SubWithOverflow': 'sub', 'MulWithOverflow': 'mul'}


class Trees:
    def __init__(self, db, fn, max_depth=40, inline=0):
        self.db = db
        self.fn = fn
        self.defs = common.defs_of(fn)
        self.max_depth = max_depth
        # inline=n: a call of a workspace function whose result is one expression of its arguments (no merge of
        # alternatives) is replaced by that expression, n levels deep -- code moved into a helper reads the same
        self.inline = inline

    def const(self, c):
        if 'fn' in c:
            return ('fn', c['fn'])
        if 'promoted' in c:
            proms = self.fn.d.get('promoted', [])
            i = c['promoted']
            if i < len(proms):
                return self._promoted(proms[i])
            return ('promoted', i)
        if 'def' in c:
            v = literals.const_value(self.db, c['def'])
            if v is not None:
                return ('val', v)
            if 'val' in c:
                return ('val', int(c['val']))
            return ('const', c['def'])
        if 'val' in c:
            return ('val', int(c['val']))
        if 'str' in c:
            return ('str', c['str'])
        return ('const?', c.get('ty'))

    def _promoted(self, items):
        # promoted bodies here are tiny: a const, or an op over consts, then a reference to it
        last = None
        env = []
        for it in items:
            k = it.get('k')
            if k == 'agg' and it.get('agg') == 'adt' and not it.get('ops'):
                last = ('agg', it.get('adt'), it.get('variant'), {})       # a unit variant / unit struct constant
            elif k == 'use' and 'c' in it['a']:
                last = self.const(it['a']['c'])
            elif k == 'bin':
                a = self.const(it['a']['c']) if 'c' in it['a'] else last
                b = self.const(it['b']['c']) if 'c' in it['b'] else last
                last = self.norm((BIN.get(it['op'], it['op']), a, b))
            elif k == 'call':
                args = [self.const(a['c']) if 'c' in a else last for a in it.get('args', [])]
                nm = it['f'].get('name', '?')
                last = args[0] if nm in TRANSPARENT and args else self.norm((nm,) + tuple(args))
            elif k == 'ref':
                pass
            env.append(last)
        return last if last is not None else ('promoted?',)

    def norm(self, t):
        if isinstance(t, tuple) and t and t[0] in COMMUTATIVE and len(t) == 3:
            a, b = sorted([t[1], t[2]], key=repr)
            return (t[0], a, b)
        return t

    def operand(self, op, depth=0):
        pl = op_place(op)
        if pl is not None:
            return self.place(pl, depth)
        return self.const(op['c'])

    def place(self, pl, depth=0):
        base = self.local(pl['l'], depth)
        path = []
        for e in pl['p']:
            if e == '*':
                continue
            if isinstance(e, dict) and 'f' in e:
                if e.get('adt') in ('core::option::Option', 'core::result::Result',
                                    'core::ops::control_flow::ControlFlow'):
                    continue
                path.append(e.get('n', str(e['f'])))
            elif isinstance(e, dict) and 'i' in e:
                path.append(('idx', self.local(e['i'], depth + 1)))
            elif isinstance(e, dict) and 'ci' in e:
                path.append(('cidx', e['ci'], e['from_end']))
            elif isinstance(e, dict) and 'sub' in e:
                path.append(('sub', tuple(e['sub']), e['from_end']))
        for p in path:
            if isinstance(base, tuple) and base[0] == 'agg' and isinstance(p, str) and p in base[3]:
                base = base[3][p]
            elif isinstance(base, tuple) and base[0] == 'tuple' and isinstance(p, str) and p.isdigit() and int(p) + 1 < len(base):
                base = base[int(p) + 1]     # field of a tuple literal
            else:
                base = ('proj', base, p)
        return base

    def local(self, l, depth=0):
        if 1 <= l <= self.fn.arg_count:
            return ('arg', l)
        if depth > self.max_depth:
            return ('deep', l)
        ds = self.defs.get(l, [])
        if len(ds) != 1:
            return ('phi', l)
        bi, kind, x = ds[0]
        if kind == 'assign':
            return self.rvalue(x, depth + 1)
        return self.call(x, depth + 1, bi)

    def rvalue(self, rv, depth):
        k = rv['k']
        if k in ('use', 'cast', 'repeat'):
            return self.operand(rv['a'], depth)
        if k in ('ref', 'rawptr'):
            return self.place(rv['place'], depth)
        if k == 'discr':
            return ('discr', self.place(rv['place'], depth))
        if k == 'bin':
            return self.norm((BIN.get(rv['op'], rv['op']), self.operand(rv['a'], depth),
                              self.operand(rv['b'], depth)))
        if k == 'un':
            if rv['op'] == 'PtrMetadata':
                return ('len', self.operand(rv['a'], depth))
            return (rv['op'], self.operand(rv['a'], depth))
        if k == 'agg':
            ops = [self.operand(o, depth) for o in rv['ops']]
            if rv.get('agg') == 'adt':
                if rv['adt'] in ('core::option::Option', 'core::result::Result') and len(ops) == 1:
                    return ops[0]
                names = rv.get('fields') or []
                return ('agg', rv['adt'], rv['variant'], dict(zip(names, ops)))
            if rv.get('agg') == 'closure':
                return ('closure', rv['closure'], tuple(ops))
            return (rv.get('agg', 'agg'),) + tuple(ops)
        return ('?', k)

    def call(self, t, depth, bi=None):
        f = t['f']
        name = f.get('name', '?')
        args = [self.operand(a, depth) for a in t.get('args', [])]
        path = f.get('resolved') if f.get('is_resolved') else f.get('path')
        local = path in self.db.fns if path else False
        if not local and name in TRANSPARENT and args:
            return args[0]
        if not local and name == 'len' and args:
            return ('len', args[0])
        if not local and name in ('index', 'get', 'get_unchecked') and len(args) == 2:
            return ('proj', args[0], ('idx', args[1]))
        if local and self.inline > 0:
            body = _return_tree(self.db, path, self.inline - 1)
            if body is not None:
                return self.norm(_subst(body, args))
        label = path if local else name
        return self.norm((label,) + tuple(args))


_RT = {}


def _return_tree(db, path, inline):
    key = (id(db), path, inline)
    if key not in _RT:
        _RT[key] = None     # recursion guard
        fn = db.fns.get(path)
        if fn is not None and fn.has_mir and not fn.compact and len(fn.blocks) <= 60:
            t = Trees(db, fn, inline=inline).local(0)
            if not _has(t, ('phi', 'deep', '?', 'promoted?', 'const?')):
                _RT[key] = t
    return _RT[key]


def _has(t, heads):
    if isinstance(t, tuple):
        if t and t[0] in heads:
            return True
        return any(_has(x, heads) for x in t[1:])
    if isinstance(t, dict):
        return any(_has(x, heads) for x in t.values())
    return False


def _subst(t, args):
    if isinstance(t, tuple):
        if len(t) == 2 and t[0] == 'arg' and isinstance(t[1], int):
            return args[t[1] - 1] if 1 <= t[1] <= len(args) else t
        return tuple(_subst(x, args) if i else x for i, x in enumerate(t))
    if isinstance(t, dict):
        return {k: _subst(v, args) for k, v in t.items()}
    return t


def show(t, depth=0):
    if not isinstance(t, tuple) or not t:
        return repr(t)
    if t[0] == 'val':
        v = t[1]
        return hex(v) if v > 1 << 20 else str(v)
    if t[0] == 'arg':
        return f'a{t[1]}'
    if t[0] == 'agg':
        return t[1].split('::')[-1] + '{' + ', '.join(f'{k}: {show(v)}' for k, v in t[3].items()) + '}'
    if t[0] == 'proj':
        p = t[2]
        if isinstance(p, tuple):
            return f'{show(t[1])}[{show(p[1]) if p[0] == "idx" else p[1:]}]'
        return f'{show(t[1])}.{p}'
    head = t[0].split('::')[-1] if isinstance(t[0], str) else str(t[0])
    return head + '(' + ', '.join(show(x) for x in t[1:]) + ')'


class PathTrees(Trees):
    """Def-use trees along ONE acyclic path of blocks: a local with several definitions resolves to the last one on
    the path (at or before the anchor block) instead of ('phi', n). Path conditions are not solved; `decisions()` lists
    the branch outcomes the path takes so that a rule can relate a value to the test that selected it and discard
    paths that take the same test both ways."""

    def __init__(self, db, fn, path, **kw):
        super().__init__(db, fn, **kw)
        self.path = list(path)
        self.pos = {}
        for i, b in enumerate(self.path):
            self.pos.setdefault(b, i)

    def local(self, l, depth=0):
        if 1 <= l <= self.fn.arg_count:
            return ('arg', l)
        if depth > self.max_depth:
            return ('deep', l)
        ds = [d for d in self.defs.get(l, []) if d[0] in self.pos]
        if not ds:
            ds = self.defs.get(l, [])
            if len(ds) != 1:
                return ('phi', l)
        bi, kind, x = max(ds, key=lambda d: self.pos.get(d[0], -1))
        if kind == 'assign':
            return self.rvalue(x, depth + 1)
        return self.call(x, depth + 1, bi)

    VARIANT_INDEX = {'None': 0, 'Some': 1, 'Ok': 0, 'Err': 1}

    def rvalue(self, rv, depth):
        if rv['k'] == 'discr' and not [e for e in rv['place']['p'] if e != '*']:
            # discriminant of an Option/Result that this path has just built: a constant
            ds = [d for d in self.defs.get(rv['place']['l'], []) if d[0] in self.pos]
            if ds:
                bi, kind, x = max(ds, key=lambda d: self.pos.get(d[0], -1))
                if kind == 'assign' and x.get('k') == 'agg' and x.get('adt') in ('core::option::Option', 'core::result::Result'):
                    v = x.get('variant')
                    if isinstance(v, int):
                        return ('val', v)
                    if v in self.VARIANT_INDEX:
                        return ('val', self.VARIANT_INDEX[v])
        return super().rvalue(rv, depth)

    def decisions(self, explicit=False):
        """[(condition tree, value taken)] for every switch on the path; value is the matched constant as a string, or
        'otherwise' (with explicit=True a third component lists the switch's explicit values)"""
        out = []
        for b, nxt in zip(self.path, self.path[1:]):
            t = self.fn.blocks[b]['term']
            if t['k'] != 'switch':
                continue
            taken = 'otherwise'
            for v, tb in t.get('targets', []):
                if tb == nxt:
                    taken = str(v)
            if taken == 'otherwise' and t.get('otherwise') != nxt:
                continue
            if explicit:
                out.append((self.operand(t['op']), taken, [str(v) for v, _ in t.get('targets', [])]))
            else:
                out.append((self.operand(t['op']), taken))
        return out

    def consistent(self):
        seen = {}
        for c, v, vals in self.decisions(explicit=True):
            if isinstance(c, tuple) and c[0] == 'val':
                # the tested value is a constant on this path (a flag or a variant set in the arm just taken)
                if (v == 'otherwise' and str(c[1]) in vals) or (v != 'otherwise' and str(c[1]) != v):
                    return False
                continue
            k = repr(c)
            if k in seen and seen[k] != v:
                return False
            seen[k] = v
        return True


def paths_to(fn, target, limit=4000):
    """acyclic block paths from the entry to `target` (cleanup blocks excluded); None when there are more than `limit`"""
    out = []
    stack = [(0, (0,))]
    can = fn.can_reach({target})
    while stack:
        b, p = stack.pop()
        if b == target:
            out.append(list(p))
            if len(out) > limit:
                return None
            continue
        for s_ in fn.succ(b):
            if s_ in can and s_ not in p and not fn.blocks[s_].get('cleanup'):
                stack.append((s_, p + (s_,)))
    return out
