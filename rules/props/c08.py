"""C08 — Fiat-Shamir challenges depend on exactly the messages sent before them."""
import common
import dataflow
import fieldflow
import fsm
from common import *
from facts import op_place

EXPLANATION = (
    '(a) Sponge discipline, by leaf-set dataflow on the Transcript methods: every absorb writes digest := '
    'hash(old digest + 1, message ...) (leaf set of the written value contains the old digest, the constant 1 with an '
    'addition, the message and a Poseidon call) and counter := 0; the squeeze returns a value depending on digest and '
    'counter through Poseidon and writes counter := counter + 1 only; who-may-write: no function outside the Transcript '
    'impl writes the digest/counter fields or constructs a Transcript (all crates). (b) Commit-phase protocol: the '
    'accepting paths of StarkProof::verify::<Layout> (callees touching the transcript inlined, loops as cycles, closures '
    'as starred sub-automata) are abstracted to an NFA over events N(seed) / A(message field) / S / D(digest read) with '
    'message labels = the proof field the absorbed operand derives from; its language must EQUAL (both inclusions, by '
    'on-the-fly determinisation) N(public_input) A(traces.original) S^k A(traces.interaction) S A(composition) S '
    'A(oods_values) S (A(fri.inner_layers) S)* A(fri.last_layer_coefficients) D A(nonce) S*, k = number of fields of '
    "the layout's InteractionElements. Hence no message is skipped, absorbed twice, or absorbed after the challenge "
    'that should depend on it, and the PoW digest is read before the nonce is absorbed. (c) distinct challenges: every '
    'field of InteractionElements comes from its own squeeze site; in stark_commit the composition coefficients, the OODS '
    'point and the DEEP coefficients come from three different squeeze sites. (d) determinism: no function reachable '
    'from verify calls into time/random/env/thread/IO APIs (who-may-call with a positive control on the matcher).')
NOT_DECIDED = ['equality with the transcript the Stone prover logged (needs recorded annotations and an execution)',
               'Poseidon itself (external crate)']
TRUSTED = ['rustc nightly MIR', 'the expected protocol regex in rules/props/c08.py', 'starknet-crypto Poseidon']

FORBIDDEN = ('std::time', 'core::time', 'rand::', 'rand_core::', 'getrandom::', 'std::env', 'std::thread', 'std::fs',
             'std::io', 'std::net', 'std::process', 'std::sync::atomic', 'core::sync::atomic', 'std::collections::hash_map::RandomState',
             'std::hash::random', 'core::arch', 'std::os')


def label(leaves):
    c = {fieldflow.canon(x) for x in leaves if x.startswith('a1.') or x.startswith('len(a1.')}
    u = sorted(x[len('a1.unsent_commitment.'):] for x in c if x.startswith('a1.unsent_commitment.'))
    if u:
        return '+'.join(u)
    if any(x.startswith('a1.public_input') for x in c):
        return 'public_input'
    return 'other:' + '+'.join(sorted(c))


def run(ctx, rep):
    for cfg in ctx.stone_configs():
        db = ctx.db(cfg)
        sponge(db, rep)
        protocol(db, rep)
        distinct(db, rep)
        determinism(db, rep)
        count(db, rep)
        verbatim(db, rep)
    rep.note('configs', ctx.stone_configs())


# methods that change what a vector holds (length, order or elements) through `&mut self`
MUTATORS = {'truncate', 'pop', 'remove', 'swap_remove', 'drain', 'clear', 'retain', 'retain_mut', 'dedup', 'dedup_by',
            'dedup_by_key', 'sort', 'sort_unstable', 'sort_by', 'sort_by_key', 'reverse', 'rotate_left', 'rotate_right',
            'split_off', 'resize', 'resize_with', 'fill', 'swap', 'push', 'insert', 'extend', 'extend_from_slice', 'append',
            'set_len', 'shrink_to', 'iter_mut', 'as_mut_slice', 'index_mut', 'get_mut', 'first_mut', 'last_mut'}


def back_roots(fn, fl, l):
    """alias classes of the storage a reference/view local goes back to: through `&x`, moves, casts and the view
    conversions (deref, as_slice, as_ref, borrow ...)"""
    VIEW = {'deref', 'deref_mut', 'as_slice', 'as_mut_slice', 'as_ref', 'as_mut', 'borrow', 'borrow_mut'}
    seen, st = set(), [l]
    while st:
        x = st.pop()
        if x in seen:
            continue
        seen.add(x)
        for b in fn.blocks:
            if b.get('cleanup'):
                continue
            for s_ in b['stmts']:
                if s_['k'] != 'assign' or s_['place']['l'] != x or s_['place']['p']:
                    continue
                rv = s_['rv']
                if rv['k'] == 'ref' and all(e == '*' for e in rv['place']['p']):
                    st.append(rv['place']['l'])
                elif rv['k'] in ('use', 'cast'):
                    o = op_place(rv['a'])
                    if o is not None and all(e == '*' for e in o['p']):
                        st.append(o['l'])
            u = b['term']
            if u['k'] == 'call' and u['dest']['l'] == x and not u['dest']['p'] and u['f'].get('name') in VIEW and u.get('args'):
                o = op_place(u['args'][0])
                if o is not None:
                    st.append(o['l'])
    return {fl.find(y) for y in seen}


def verbatim(db, rep):
    """A prover message is absorbed as sent: when the operand of an absorb is (a copy of) a proof field, no call between
    its definition and the absorb may change it through `&mut` (truncate/pop/retain/sort/push ...). The order and count
    rules see that *something* derived from the message is absorbed once; this one sees that it is the message itself,
    so a data-dependent trim or normalisation in front of the absorb is a violation (two different messages, one
    transcript state)."""
    import dataflow as df
    cfg = db.config
    R = db.reach([VERIFY])
    n = 0
    for p in sorted(R):
        fn = db.fns.get(p)
        if fn is None or not fn.has_mir or p.startswith(TRANSCRIPT):
            continue
        sites = [(bi, t) for bi, t in fn.calls() if set(db.resolve(t['f'], {})) & {T_ABSORB1, T_ABSORBV, T_ABSORB64}]
        if not sites:
            continue
        fl = df.Flow(db, fn)
        for k, (bi, t) in enumerate(sites):
            if len(t.get('args', [])) < 2:
                continue
            lv = fl.operand_leaves(t['args'][1])
            if not any(df.is_path_leaf(x) for x in lv):
                continue       # a value computed by the verifier (hash, constant): not a prover message
            n += 1
            pl = op_place(t['args'][1])
            roots = back_roots(fn, fl, pl['l']) if pl is not None else set()
            bad = []
            for bj, u in fn.calls():
                if u['f'].get('name') not in MUTATORS or not u.get('args'):
                    continue
                a0 = op_place(u['args'][0])
                if a0 is None:
                    continue
                r0 = back_roots(fn, fl, a0['l'])
                if not (r0 & roots):
                    continue
                # only a mutation that can still be followed by the absorb matters
                seen, st = set(), [bj]
                while st:
                    x = st.pop()
                    if x in seen:
                        continue
                    seen.add(x)
                    st += list(fn.succ(x))
                if bi in seen and bj != bi:
                    bad.append((u['f'].get('name'), u['line']))
            rep.ob('C08.verbatim', f'{p}|absorb#{k}', not bad,
                   f'{p.split("::")[-1]}: the absorbed prover message ({label(lv)}) ' +
                   ('reaches the absorb unmodified' if not bad else
                    f'is changed in place before it is absorbed: {bad[0][0]} at line {bad[0][1]} -- the transcript no longer '
                    f'binds the message as sent'), fn.loc(t['line']), cfg)
    # counted on the pinned tree: absorbs of prover messages outside the transcript module
    rep.floor('C08.verbatim', 'absorb sites of prover messages in Reach(verify)', n, 4)


def has(leaves, pred):
    return any(pred(x) for x in leaves)


def sponge(db, rep):
    cfg = db.config
    ONE = lambda x: x.startswith('const:') and x.endswith('Felt::ONE') or x == 'lit:1' or x.endswith('FELT_1')
    ZERO = lambda x: x.startswith('const:') and x.endswith('Felt::ZERO') or x == 'lit:0' or x.endswith('FELT_0')
    POS = lambda x: x.startswith('call:starknet_crypto::poseidon_hash::')
    for m in (T_ABSORB1, T_ABSORBV, T_ABSORB64):
        fn = db.fn(m, 'C08.sponge')
        fl = dataflow.Flow(db, fn, opaque=set())
        d = fl.pw.get('a1.digest', set())
        c = fl.pw.get('a1.counter', set())
        ok_d = 'a1.digest' in d and 'a2' in d and has(d, ONE) and 'op:add' in d and has(d, POS)
        rep.ob('C08.sponge', f'{fn.name}/digest', ok_d,
               f'{fn.name}: digest := Poseidon(digest + 1, message ..): written leaves {sorted(x for x in d if not x.startswith("a2."))[:8]}',
               fn.loc(), cfg, sample=(m == T_ABSORB1))
        if m == T_ABSORB64:
            import cfg as _cfg
            blocks = _cfg.blocks_calling(fn, db, {T_ABSORB1, T_ABSORBV})
            w = _cfg.must_pass_through(fn, blocks, 'accept')
            rep.ob('C08.sponge', f'{fn.name}/delegates', w is None and bool(blocks),
                   f'{fn.name} delegates to read_felt_from_prover on every path', fn.loc(), cfg)
            continue
        ok_c = bool(c) and all(ZERO(x) for x in c if not x.startswith(('call:', 'op:'))) and 'a1.counter' not in c \
            and not any(x.startswith('a2') for x in c)
        rep.ob('C08.sponge', f'{fn.name}/counter-reset', ok_c, f'{fn.name}: counter := 0: written leaves {sorted(c)[:6]}', fn.loc(), cfg)
        others = {k for k in fl.pw if k.startswith('a1') and k not in ('a1.digest', 'a1.counter', 'a1')}
        rep.ob('C08.sponge', f'{fn.name}/no-other-state', not others, f'{fn.name} writes only digest and counter (also: {sorted(others)})',
               fn.loc(), cfg)
    fn = db.fn(T_SQUEEZE, 'C08.sponge')
    fl = dataflow.Flow(db, fn, opaque=set())
    ret = fl.leaves(0)
    rep.ob('C08.sponge', 'squeeze/value', {'a1.digest', 'a1.counter'} <= ret and has(ret, POS),
           f'random_felt_to_prover returns Poseidon(digest, counter): leaves {sorted(ret)[:6]}', fn.loc(), cfg, sample=True)
    c = fl.pw.get('a1.counter', set())
    rep.ob('C08.sponge', 'squeeze/counter+1', 'a1.counter' in c and has(c, ONE) and 'op:add' in c and
           not any(x.startswith('call:') for x in c), f'counter := counter + 1: written leaves {sorted(c)}', fn.loc(), cfg)
    rep.ob('C08.sponge', 'squeeze/digest-untouched', 'a1.digest' not in fl.pw and 'a1' not in fl.pw,
           f'the squeeze must not modify the digest (writes: {sorted(fl.pw)})', fn.loc(), cfg)
    # the batch squeeze must be n single squeezes: it delegates in every iteration and touches no state itself;
    # only the three primitives may call Poseidon
    import cfg as _cfg
    fnN = db.fn(T_SQUEEZE_N, 'C08.sponge')
    okN = False
    for latch, header in fnN.backedges:
        blocks = {bi for bi in dataflow.natural_loop(fnN, latch, header) if bi in _cfg.blocks_calling(fnN, db, {T_SQUEEZE})}
        if blocks and _cfg.must_pass_through(fnN, blocks, 'iteration', (latch, header)) is None:
            okN = True
    rep.ob('C08.sponge', 'batch-squeeze/delegates', okN, 'random_felts_to_prover calls random_felt_to_prover in every iteration of its loop', fnN.loc(), cfg)
    own_w = set()
    for b in fnN.blocks:
        for s_ in b['stmts']:
            if s_['k'] == 'assign' and any(isinstance(e, dict) and e.get('adt') == TRANSCRIPT for e in s_['place']['p']):
                own_w.add(s_['line'])
            if s_['k'] == 'assign' and s_['rv']['k'] == 'ref' and s_['rv'].get('mut') and any(isinstance(e, dict) and e.get('adt') == TRANSCRIPT for e in s_['rv']['place']['p']):
                own_w.add(s_['line'])
    rep.ob('C08.sponge', 'batch-squeeze/no-own-state', not own_w, f'random_felts_to_prover must not write digest/counter itself (writes at lines {sorted(own_w)})', fnN.loc(), cfg)
    callers = sorted(p for p, f in db.fns.items() if p.startswith(TRANSCRIPT + '::') and f.has_mir and
                     any((t['f'].get('resolved') or '').startswith('starknet_crypto::poseidon_hash') for _, t in f.calls()))
    prim = sorted([T_SQUEEZE, T_ABSORB1, T_ABSORBV])
    # no method besides the three primitives hashes; the squeeze does, and at least one absorb primitive does (the
    # other may delegate to it -- the digest/counter rules above hold for each of them either way)
    okp = set(callers) <= set(prim) and T_SQUEEZE in callers and bool({T_ABSORB1, T_ABSORBV} & set(callers))
    rep.ob('C08.sponge', 'poseidon-only-in-primitives', okp,
           f'Transcript methods calling Poseidon: {[c.split("::")[-1] for c in callers]} (allowed: only the three primitives)',
           'crates/transcript/src/transcript.rs', cfg)
    # who-may-write / who-may-construct
    writers, makers = set(), set()
    n_fns = 0
    for p, f in db.fns.items():
        if not f.has_mir:
            continue
        n_fns += 1
        for b in f.blocks:
            if b.get('cleanup'):
                continue
            for s in b['stmts']:
                if s['k'] != 'assign':
                    continue
                for e in s['place']['p']:
                    if isinstance(e, dict) and e.get('adt') == TRANSCRIPT:
                        writers.add(p)
                rv = s['rv']
                if rv['k'] == 'agg' and rv.get('adt') == TRANSCRIPT:
                    makers.add(p)
                if rv['k'] == 'ref' and rv.get('mut') and any(isinstance(e, dict) and e.get('adt') == TRANSCRIPT for e in rv['place']['p']):
                    writers.add(p)
    bad_w = sorted(p for p in writers if not p.startswith(TRANSCRIPT + '::'))
    bad_m = sorted(p for p in makers if not p.startswith(TRANSCRIPT + '::'))
    rep.ob('C08.sponge', 'who-may-write', not bad_w and len(writers) >= 1,
           f'functions writing Transcript fields: {sorted(w.split("::")[-1] for w in writers)}; outside the impl: {bad_w}',
           'crates/transcript/src/transcript.rs', cfg)
    rep.ob('C08.sponge', 'who-may-construct', not bad_m and len(makers) >= 1,
           f'functions constructing a Transcript: {sorted(w.split("::")[-1] for w in makers)}; outside the impl: {bad_m}',
           'crates/transcript/src/transcript.rs', cfg)
    # new_with_counter (arbitrary counter) must not be reachable from verify
    R = set(db.reach([VERIFY]))
    rep.ob('C08.sponge', 'fresh-transcript-only', TRANSCRIPT + '::new_with_counter' not in R and T_NEW in R,
           'verify starts from Transcript::new(seed) (counter 0); new_with_counter is not reachable', db.fns[VERIFY].loc(), cfg)
    rep.note(f'functions_scanned[{cfg}]', n_fns)


def protocol(db, rep):
    cfg = db.config
    lay = db.layouts()
    rep.floor('C08.protocol', 'LayoutTrait impls', len(lay), 7)
    for lname, lself in sorted(lay.items()):
        ie = db.adts.get(f'swiftness_air::layout::{lname}::global_values::InteractionElements')
        if ie is None:
            rep.fail_closed('C08.protocol', f'InteractionElements of {lname} not found')
            continue
        k = len(ie['variants'][0]['fields'])
        B = fsm.Builder(db, {'Layout': lself}, label)
        s, e = B.build(VERIFY)
        exp = fsm.seq('N:public_input', 'A:traces.original', fsm.rep(k, 'S'), 'A:traces.interaction', 'S', 'A:composition',
                      'S', 'A:oods_values', 'S', fsm.star('A:fri.inner_layers', 'S'), 'A:fri.last_layer_coefficients', 'D',
                      'A:proof_of_work.nonce', fsm.star('S'))
        n2, s2, e2 = fsm.build_expected(exp)
        diff = fsm.compare(B.nfa, s, e, n2, s2, e2)
        if diff is None:
            rep.ob('C08.protocol', lname, True,
                   f'event language of verify::<{lname}> equals the protocol (k={k} interaction elements; {B.nfa.n} NFA states; '
                   f'alphabet {sorted(B.nfa.alphabet())})', db.fns[VERIFY].loc(), cfg, sample=(lname == 'recursive'))
        else:
            word, side = diff
            last = word[-1] if word else ''
            where = sorted(B.nfa.sites.get(last, []))[:2]
            rep.ob('C08.protocol', lname, False,
                   f'event language of verify::<{lname}> differs from the protocol: the sequence {word} is possible only in the '
                   f'{"code" if side == "code" else "expected protocol"} (k={k}); last event at {where}',
                   where[0] if where else db.fns[VERIFY].loc(), cfg)


def distinct(db, rep):
    cfg = db.config
    for lname, lself in sorted(db.layouts().items()):
        p = f'swiftness_air::layout::{lname}::global_values::InteractionElements::new'
        fn = db.fn(p, 'C08.distinct')
        defs = common.defs_of(fn)
        sites = {}
        agg = None
        for b in fn.blocks:
            for s in b['stmts']:
                if s['k'] == 'assign' and s['rv'].get('k') == 'agg' and s['rv'].get('adt', '').endswith('InteractionElements'):
                    agg = s['rv']
        ok = agg is not None
        detail = 'no InteractionElements constructed'
        if ok:
            for name, o in zip(agg['fields'], agg['ops']):
                oc = common.origin_calls(fn, o, defs)
                sites[name] = oc
            all_sites = [frozenset(v) for v in sites.values()]
            ok = all(len(v) == 1 and next(iter(v))[0] == T_SQUEEZE for v in sites.values()) and len(set(all_sites)) == len(all_sites)
            detail = f'{len(sites)} fields from {len(set(all_sites))} distinct squeeze sites'
        rep.ob('C08.distinct', f'{lname}/interaction-elements', ok, detail, fn.loc(), cfg)
    # roles in stark_commit
    fn = db.fn(STARK_COMMIT, 'C08.distinct')
    defs = common.defs_of(fn)
    roles = {}
    pa = 0
    pr = common.powers_roles(db)
    for bi, t in fn.calls():
        r = t['f'].get('resolved') or ''
        if r.endswith('::powers_array') and pr and len(t['args']) >= pr['alpha']:
            roles[f'coefficients#{pa}'] = common.origin_calls(fn, t['args'][pr['alpha'] - 1], defs)
            pa += 1
        if r == VERIFY_OODS:
            roles['oods_point'] = common.origin_calls(fn, t['args'][4], defs)
    vals = [frozenset(v) for v in roles.values()]
    ok = len(roles) == 3 and all(len(v) == 1 and next(iter(v))[0] == T_SQUEEZE for v in roles.values()) and len(set(vals)) == 3
    rep.ob('C08.distinct', 'stark_commit/roles', ok,
           f'composition coefficients, OODS point and DEEP coefficients each from their own squeeze: {{k: sorted(b for _, b in v) for k, v in roles.items()}}'
           .replace('{k: sorted(b for _, b in v) for k, v in roles.items()}', str({k: sorted(b for _, b in v) for k, v in roles.items()})),
           fn.loc(), cfg)


def determinism(db, rep):
    cfg = db.config
    R = db.reach([VERIFY])
    ext = set()
    statics = set()
    for p in R:
        f = db.fns[p]
        if f.has_mir:
            for bi, t in f.calls():
                q = t['f'].get('resolved') or t['f'].get('path')
                if q and q not in db.fns:
                    ext.add(q)
        elif f.compact:
            for cs in f.d.get('callsum', []):
                q = cs['f'].get('resolved') or cs['f'].get('path')
                if q and q not in db.fns:
                    ext.add(q)
    bad = sorted(q for q in ext if any(q.startswith(x) or ('<' + x) in q for x in FORBIDDEN))
    control = [q for q in ['std::time::Instant::now', 'rand::random'] if any(q.startswith(x) for x in FORBIDDEN)]
    rep.ob('C08.determinism', 'no-nondeterministic-callee', not bad and len(control) == 2,
           f'{len(ext)} distinct external callees reachable from verify; forbidden (time/random/env/thread/IO): {bad}; '
           f'matcher positive control hit {len(control)}/2', db.fns[VERIFY].loc(), cfg)
    # measured on the pinned tree: 150+ external callees
    rep.floor('C08.determinism', f'external callees scanned [{cfg}]', len(ext), 100)


SQUEEZE_LEAF = 'call:' + TRANSCRIPT + '::random_felt'


def count(db, rep):
    """The number of transcript operations is fixed by the configuration and by the shape of the proof, never by the
    values drawn: prover and verifier must perform the same sequence. Every loop and iterator pipeline of a function
    that (transitively) touches the transcript is looked at (iteration sites of the C17 inventory, callee sites in
    terms of verify's own values); a bound or exit condition that depends on a squeezed value is reported."""
    import re
    cfg = db.config
    lay = db.layouts()
    n = 0
    for lname, lself in sorted(lay.items()):
        b = {'Layout': lself}
        B = fsm.Builder(db, b, label)
        B.touches(VERIFY)
        touching = {p for p, v in B._touch.items() if v}
        for g in dataflow.effective_guards(db, VERIFY, b, sinks='iter'):
            k = getattr(g, 'kind', '') or ''
            if not k.startswith('iter') or k == 'iter:alloc':
                continue
            root = re.sub(r'(::\{closure#\d+\})+$', '', g.fn)
            if root not in touching and g.fn not in touching:
                continue
            n += 1
            dep = sorted(x for x in g.lhs | g.rhs if x.startswith(SQUEEZE_LEAF))
            rep.ob('C08.count', f'{root}|{k}:{getattr(g, "root", "")}', not dep,
                   f'{k} ({getattr(g, "root", "")}) in {root.split("::")[-1]}: ' +
                   ('its bound does not depend on squeezed values' if not dep else
                    f'how often it runs depends on values squeezed from the transcript ({dep[0][5:]}): the number of transcript '
                    'operations would differ between prover and verifier'), db.fns[g.fn].loc(g.line), cfg)
    rep.floor('C08.count', 'iteration sites in transcript-touching functions', n, 7)
