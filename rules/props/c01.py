"""C01 — no proof is accepted for a trace that violates the AIR (structural necessary conditions)."""
import cfg
import common
import dataflow
import guardtable as GT
import obligations
from common import *  # anchors
from facts import op_place

EXPLANATION = (
    'Soundness itself is not decidable in this family. Decided: the structural necessary conditions the '
    'statement enumerates. (a) OODS length coupling: on every accepting path of stark_commit a guard '
    'EQ(len(oods_values), MASK_SIZE + CONSTRAINT_DEGREE) exists; per layout the largest oods_values index '
    'read by the generated DEEP evaluator + 1 equals MASK_SIZE + CONSTRAINT_DEGREE, the largest mask index '
    'read by the composition evaluator + 1 equals MASK_SIZE, and the number of trailing entries verify_oods '
    'reads equals CONSTRAINT_DEGREE. (b) the FRI input size is tied to the evaluation domain and (c) the '
    'blow-up exponent is bounded to 1..=16 (guards extracted from StarkConfig::validate with callees '
    'inlined). (d) no Result produced anywhere in Reach(StarkProof::verify) is dropped or swallowed '
    '(R-RES: every Result-typed call result must end in ?, a rejecting match, unwrap, or the return '
    'place). (e) every verification step is on every accepting path with its verdict propagated '
    '(transitive must-pass-through chains from verify to each step, instantiated per layout), and the '
    'OODS equation compares the layout\'s composition evaluation with a value built from the trailing '
    'OODS entries and the OODS point. (f) coefficient structure is C16.')
NOT_DECIDED = [
    'soundness proper: that these checks force the existence of a satisfying trace except with negligible probability',
    'arithmetic errors inside a step (constraint expressions, DEEP quotients)',
]
TRUSTED = ['rustc nightly MIR/HIR', 'obligation chains and guard entries frozen in rules/props/c01.py and c11.py',
           'external crates are not analysed']

THOROUGH_MAIN_CONFIGS = ['b248s6', 'nostd']


def run(ctx, rep):
    db = ctx.main
    cfgname = db.config
    lay = db.layouts()
    rep.floor('C01', 'LayoutTrait impls', len(lay), 7)
    # the AIR's own sizes and parameters (N_CONSTRAINTS, MASK_SIZE, CONSTRAINT_DEGREE, column counts, builtin ratios ...)
    common.constants_check(db, rep, 'C01.constants', cfgname, layouts=True)
    periodic_gating(db, rep, lay, cfgname)
    periodic_args(db, rep, lay, cfgname)
    global_values(db, rep, lay, cfgname)

    # ---------- (d) result discipline over Reach(verify) ----------
    R = db.reach([VERIFY])
    n_res = 0
    per_fn_ord = {}
    for p in R:
        f = db.fns[p]
        if not f.has_mir:
            continue
        for bi, t, uses, verdict in cfg.result_discipline(f):
            n_res += 1
            callee = t['f'].get('resolved') or t['f'].get('path') or 'indirect'
            k = per_fn_ord.setdefault((p, callee), 0)
            per_fn_ord[(p, callee)] = k + 1
            rep.ob('C01.result', f'{p}|{callee}|{k}', verdict == 'ok',
                   f'Result of {callee} in {p} is {verdict}' +
                   ('' if verdict == 'ok' else f' ({"; ".join(map(str, uses)) or "no consuming use: let _ = / expression statement"})'),
                   f.loc(t['line']), cfgname, sample=(verdict != 'ok'))
    rep.note('reach_verify', {'functions': len(R), 'with_mir': sum(1 for p in R if db.fns[p].has_mir),
                              'result_sites': n_res})
    # measured on the pinned tree: 351 Result-producing call sites in Reach(verify)
    rep.floor('C01.result', 'Result-typed call sites in Reach(verify)', n_res, 340)

    # ---------- (e) chains per layout ----------
    for lname, lself in sorted(lay.items()):
        b = {'Layout': lself}
        m = lambda name: common.layout_method(db, lself, name, 'C01.chain').path
        chains = [
            ('config', [VERIFY, CONFIG_VALIDATE], None),
            ('pow-config', [VERIFY, CONFIG_VALIDATE, POW_CONFIG_VALIDATE], None),
            ('fri-config', [VERIFY, CONFIG_VALIDATE, FRI_CONFIG_VALIDATE], None),
            ('public-input', [VERIFY, m('validate_public_input')], None),
            ('oods', [VERIFY, STARK_COMMIT, VERIFY_OODS, m('eval_composition_polynomial')], None),
            ('pow', [VERIFY, STARK_COMMIT, POW_COMMIT, VERIFY_POW], None),
            ('traces', [VERIFY, STARK_VERIFY, m('traces_decommit'), TABLE_DECOMMIT, VECTOR_DECOMMIT, COMPUTE_ROOT], None),
            ('fri', [VERIFY, STARK_VERIFY, FRI_VERIFY, FRI_VERIFY_LAYERS], None),
            ('fri-last', [VERIFY, STARK_VERIFY, FRI_VERIFY, VERIFY_LAST_LAYER], None),
            ('public-hashes', [VERIFY, m('verify_public_input')], None),
        ]
        for name, chain, modes in chains:
            obligations.check_chain(db, rep, 'C01.chain', f'{lname}/{name}', chain, b, modes, cfgname)
        # composition decommitment: a direct, checked table_decommit in stark_verify on commitment.composition
        sv = db.fns[STARK_VERIFY]
        fl = dataflow.Flow(db, sv, b)

        def comp_filter(fn, bi, t, callee, fl=fl):
            if callee != TABLE_DECOMMIT:
                return True
            # the call may sit in stark_verify or in a stage it calls: the argument is read back to stark_verify's
            # parameters through the stage's call sites
            a0 = common.root_leaves(db, b, STARK_VERIFY, fn, t['args'][0])
            return any(x.startswith('a5.composition') for x in a0)
        obligations.check_chain(db, rep, 'C01.chain', f'{lname}/composition', [VERIFY, STARK_VERIFY, TABLE_DECOMMIT],
                                b, None, cfgname, comp_filter)
        # the two trace tables
        td = db.fns[m('traces_decommit')]
        flt = dataflow.Flow(db, td, b)
        for which in ('original', 'interaction'):
            def tf(fn, bi, t, callee, which=which, flt=flt, td=td):
                if callee != TABLE_DECOMMIT:
                    return True
                a0 = common.root_leaves(db, b, td.path, fn, t['args'][0])
                a2 = common.root_leaves(db, b, td.path, fn, t['args'][2])
                a3 = common.root_leaves(db, b, td.path, fn, t['args'][3])
                return (any(x.startswith('a2.' + which) for x in a0) and any(x.startswith('a3.' + which) for x in a2)
                        and any(x.startswith('a4.' + which) for x in a3))
            obligations.check_chain(db, rep, 'C01.chain', f'{lname}/trace-{which}', [td.path, TABLE_DECOMMIT], b, None,
                                    cfgname, tf)
    # FRI per-iteration steps (layout independent)
    obligations.check_chain(db, rep, 'C01.chain', 'fri-layers/decommit', [FRI_VERIFY_LAYERS, TABLE_DECOMMIT, VECTOR_DECOMMIT],
                            None, {0: 'iteration'}, cfgname)
    obligations.check_chain(db, rep, 'C01.chain', 'fri-layers/fold', [FRI_VERIFY_LAYERS, COMPUTE_NEXT_LAYER, FRI_FORMULA],
                            None, {0: 'iteration', 1: 'iteration'}, cfgname)
    root_comparison(db, rep)
    oods_equation(db, rep, lay)
    oods_length(ctx, db, rep, lay)
    config_guards(ctx, rep)
    fri_input_flow(db, rep, lay)


def root_comparison(db, rep):
    """vector_commitment_decommit: EQ(commitment_hash, computed root) on every accepting path"""
    fn = db.fn(VECTOR_DECOMMIT, 'C01.root')
    fl = dataflow.Flow(db, fn)
    ok = False
    for g in dataflow.own_guards(db, fn, fl):
        both = [g.lhs, g.rhs]
        if g.rel == 'EQ' and g.covers == 'all' and g.reject == 'err':
            for x, y in (both, both[::-1]):
                if any(l.startswith('a1.commitment_hash') for l in x) and \
                        any(l.startswith('a2') for l in y) and any(l.startswith('a3.authentications') for l in y):
                    ok = True
    rep.ob('C01.root', 'root-compared', ok,
           'vector_commitment_decommit must reject unless commitment_hash == root recomputed from queries and authentications',
           fn.loc(), db.config)


def oods_equation(db, rep, lay):
    fn = db.fn(VERIFY_OODS, 'C01.oods-eq')
    b = {'Layout': sorted(lay.values())[0]}
    fl = dataflow.Flow(db, fn, b)
    defs = common.defs_of(fn)
    ok = False
    seen = []
    ra = cfg.reach_accept(fn)
    for bi, t in fn.calls():
        if t['f'].get('name') in ('eq', 'ne') and t['f'].get('trait', '').startswith('core::cmp'):
            A = common.origin_calls(fn, {'cp': {'l': op_place(t['args'][0])['l'], 'p': []}}, defs)
            l0 = fl.operand_leaves(t['args'][0])
            l1 = fl.operand_leaves(t['args'][1])
            for x, y in ((l0, l1), (l1, l0)):
                comp = any(c.startswith('call:') and 'eval_composition_polynomial' in c for c in x) or \
                    any('eval_composition_polynomial' in c for c in x)
                claimed = any(l.startswith('a1[*]') for l in y) and 'a5' in {l[:2] for l in y} and 'op:mul' in y
                seen.append((comp, claimed))
                if comp and claimed:
                    ok = True
    # the comparison must decide the verdict
    gs = [g for g in dataflow.own_guards(db, fn, fl) if g.rel == 'EQ' and g.covers == 'all']
    rep.ob('C01.oods-eq', 'equation', ok and bool(gs),
           'verify_oods must reject unless eval_composition_polynomial(..) == oods[len-2] + oods[len-1]*oods_point '
           f'(comparison operands seen: {seen[:2]}, deciding EQ guards: {len(gs)})', fn.loc(), db.config)


def oods_length(ctx, db, rep, lay):
    import props.c16 as c16
    cfgname = db.config
    want_l = {'len(a3.oods_values)'}
    MS = 'const:' + LAYOUT_TRAIT + '::MASK_SIZE'
    CD = 'const:' + LAYOUT_TRAIT + '::CONSTRAINT_DEGREE'
    b = {'Layout': sorted(lay.values())[0]}
    found = None
    for fnpath, lenleaf in ((STARK_COMMIT, 'len(a3.oods_values)'), (VERIFY_OODS, 'len(a1)')):
        for g in dataflow.effective_guards(db, fnpath, b):
            if g.rel != 'EQ' or g.covers != 'all':
                continue
            for x, y in ((g.lhs, g.rhs), (g.rhs, g.lhs)):
                if lenleaf in x and MS in y and CD in y and 'op:add' in y and not any(l.startswith('a') for l in y):
                    found = g
    fn = db.fns[STARK_COMMIT]
    rep.ob('C01.oods-len', 'length-guard', found is not None,
           'stark_commit/verify_oods must reject unless oods_values.len() == MASK_SIZE + CONSTRAINT_DEGREE: the vector is read '
           'positionally by verify_oods (trailing entries) and by the DEEP evaluator (indices MASK_SIZE..); without the '
           'guard the two consumers can be decoupled', db.fns[found.fn].loc(found.line) if found else fn.loc(), cfgname,
           sample=True)
    # trailing entries read by verify_oods
    vo = db.fns[VERIFY_OODS]
    fl = dataflow.Flow(db, vo, b)
    tail = set()
    for g in dataflow.own_guards(db, vo, fl):
        if getattr(g, 'kind', None) == 'bounds' or g.reject == 'panic':
            for l in g.lhs:
                if l.startswith('lit:') and 'len(a1)' in g.lhs and 'op:sub' in g.lhs:
                    tail.add(int(l[4:]))
    # Index::index(v, len-2) is a call, not a BoundsCheck: read the literals subtracted from len
    for bi, blk in enumerate(vo.blocks):
        for s in blk['stmts']:
            if s['k'] == 'assign' and s['rv']['k'] == 'bin' and s['rv']['op'].startswith('Sub'):
                a = fl.operand_leaves(s['rv']['a'])
                c = s['rv']['b'].get('c')
                if 'len(a1)' in a and c and 'val' in c:
                    tail.add(int(c['val']))
    for lname, lself in sorted(lay.items()):
        cd = db.layout_const(lself, 'CONSTRAINT_DEGREE')
        ms = db.layout_const(lself, 'MASK_SIZE')
        rep.ob('C01.oods-len', f'{lname}/trailing==degree', bool(tail) and max(tail) == cd,
               f'verify_oods reads the last {max(tail) if tail else "?"} entries; CONSTRAINT_DEGREE of {lname} = {cd}',
               vo.loc(), cfgname)
        # generated evaluators: index ranges
        tmp = type(rep)(rep.prop, rep.tier)
        r1 = c16.analyse(db, tmp, lname, lself, 'composition')
        r2 = c16.analyse(db, tmp, lname, lself, 'oods')
        mm = r1['maxidx'].get('mask_values') if r1 else None
        mo = r2['maxidx'].get('oods_values') if r2 else None
        rep.ob('C01.oods-len', f'{lname}/mask-range', mm is not None and mm + 1 == ms,
               f'composition evaluator of {lname} reads mask indices up to {mm}; MASK_SIZE = {ms}', '', cfgname)
        rep.ob('C01.oods-len', f'{lname}/oods-range', mo is not None and mo + 1 == ms + cd,
               f'DEEP evaluator of {lname} reads oods_values up to index {mo}; MASK_SIZE + CONSTRAINT_DEGREE = {ms + cd}', '',
               cfgname)


def config_guards(ctx, rep):
    import props.c11 as c11
    db = ctx.main
    tab = [e for e in c11.table() if e.name in ('fri-input=eval-domain', 'blowup>=1', 'blowup<=16',
                                                  'fri-input=steps+bound+blowup')]
    guards = dataflow.effective_guards(db, CONFIG_VALIDATE)
    matched, _ = GT.match_table(db, guards, tab, c11.extras())
    fn = db.fns[CONFIG_VALIDATE]
    for e in tab:
        gs = matched[e.name]
        rep.ob('C01.config', e.name, bool(gs),
               f'{e.why}: guard {GT.describe(e.rel, e.lhs, e.rhs)} ' + ('found' if gs else 'missing in StarkConfig::validate'),
               db.fns[gs[0].fn].loc(gs[0].line) if gs else fn.loc(), db.config)


def fri_input_flow(db, rep, lay):
    """the values handed to FRI are the DEEP evaluations of the decommitted cells"""
    fn = db.fn(STARK_VERIFY, 'C01.flow')
    for lname, lself in sorted(lay.items()):
        b = {'Layout': lself}
        fl = dataflow.Flow(db, fn, b)
        ok = False
        missing = []
        for bi, t in fn.calls():
            if t['f'].get('resolved') == FRI_VERIFY:
                d = fl.operand_leaves(t['args'][2])
                need = {
                    'trace original cells': lambda x: x.startswith('a6.traces_decommitment.original.values'),
                    'trace interaction cells': lambda x: x.startswith('a6.traces_decommitment.interaction.values'),
                    'composition cells': lambda x: x.startswith('a6.composition_decommitment.values'),
                    'oods values': lambda x: x.startswith('a5.oods_values'),
                    'DEEP coefficients': lambda x: x.startswith('a5.interaction_after_oods'),
                    'oods point': lambda x: x.startswith('a5.interaction_after_composition'),
                    'queries': lambda x: x.startswith('a4'),
                }
                missing = [k for k, p in need.items() if not any(p(x) for x in d)]
                ok = not missing
        rep.ob('C01.flow', f'{lname}/fri-input', ok,
               f'FRI decommitment values must depend on decommitted cells, OODS values/point, DEEP coefficients and queries; '
               f'missing: {missing}', fn.loc(), db.config)


def periodic_gating(db, rep, lay, cfgname):
    """dynamic layout: the periodic columns of a builtin (Pedersen points, ECDSA generator points, Keccak and Poseidon
    round keys) are evaluated exactly on the side of the `uses_<builtin>_builtin == 0` test where the builtin IS used
    (and are zero otherwise): every call of periodic_columns::eval_<builtin>.. is dominated by the non-zero arm of the test
    on that builtin's flag. (Sibling rule: the four builtins are gated the same way.)"""
    import re
    import exprtree
    if 'dynamic' not in lay:
        return
    m = common.layout_method(db, lay['dynamic'], 'eval_composition_polynomial', 'C01.periodic')
    if m is None or not m.has_mir or m.compact:
        rep.fail_closed('C01.periodic', 'dynamic::eval_composition_polynomial not available')
        return
    T = exprtree.Trees(db, m)
    dom = m.dominators()
    tests = {}
    for bi, b in enumerate(m.blocks):
        t = b['term']
        if t['k'] != 'switch' or b.get('cleanup'):
            continue
        c = T.operand(t['op'])
        sh = exprtree.show(c)
        mm = re.search(r'uses_(\w+?)_builtin', sh)
        if not (mm and isinstance(c, tuple) and c[0] in ('Eq', 'Ne', 'eq', 'ne') and ('val', 0) in c[1:]):
            continue
        zero_t = [tb for v, tb in t.get('targets', []) if str(v) == '0']
        if not zero_t:
            continue
        # block entered when the builtin is used (flag != 0)
        used = zero_t[0] if c[0] in ('Eq', 'eq') else t.get('otherwise')
        tests[mm.group(1)] = (bi, used, sh)
    n = 0
    for bi, t in m.calls():
        r = t['f'].get('resolved') or ''
        mm = re.search(r'periodic_columns::eval_([a-z]+)_', r)
        if not mm:
            continue
        b = mm.group(1)
        n += 1
        tst = tests.get(b)
        ok = tst is not None and tst[1] is not None and tst[1] in dom.get(bi, ())
        rep.ob('C01.periodic', f'{r.split("::")[-1]}', ok,
               f'{r.split("::")[-1]} must be evaluated only when uses_{b}_builtin != 0' + ('' if ok else
               (f'; it is not on the non-zero side of {tst[2][:70]}' if tst else f'; no test on uses_{b}_builtin found')), m.loc(t['line']), cfgname)
    rep.floor('C01.periodic', 'periodic column evaluations in the dynamic layout', n, 8)


def periodic_args(db, rep, lay, cfgname):
    """the point each periodic column is evaluated at (point^(trace_length / (row_ratio * repetitions)) and the like) is
    computed from the same operations, constants (by value) and dynamic parameters as on the pinned tree
    (tables/periodic_args.json). Temporaries, helper extraction and operand order do not matter; another operation,
    constant or parameter does."""
    import json
    import os
    import dataflow
    import guardtable as GT
    tab = json.load(open(os.path.join(os.path.dirname(os.path.dirname(os.path.dirname(os.path.abspath(__file__)))), 'tables', 'periodic_args.json')))['layouts']
    n = 0
    for lname, lself in sorted(lay.items()):
        m = common.layout_method(db, lself, 'eval_composition_polynomial', 'C01.periodic-args')
        if not m.has_mir or m.compact:
            continue
        fl = dataflow.Flow(db, m)
        for bi, t in m.calls():
            r = t['f'].get('resolved') or ''
            if 'periodic_columns::eval_' not in r or not t.get('args'):
                continue
            name = r.split('::')[-1]
            want = tab.get(lname, {}).get(name)
            if want is None:
                continue
            lv = GT.norm_side(db, fl.operand_leaves(t['args'][0]))
            sig = sorted(x if '.dynamic_params.' not in x else 'dp:' + x.split('.dynamic_params.')[1]
                         for x in lv if x.startswith(('op:', 'val:')) or '.dynamic_params.' in x)
            n += 1
            rep.ob('C01.periodic-args', f'{lname}/{name}', sig == want,
                   f'{lname}: argument of {name} is computed from {sig}' + ('' if sig == want else f'; confirmed: {want}'), m.loc(t['line']), cfgname)
    rep.floor('C01.periodic-args', 'periodic column evaluations compared', n, 40)


def global_values_signatures(db, lay):
    out = {}
    for lname, lself in sorted(lay.items()):
        d = {}
        for meth in ('eval_composition_polynomial', 'eval_oods_polynomial'):
            m = common.layout_method(db, lself, meth, 'C01.global-values')
            if m.has_mir and not m.compact:
                for k, v in common.struct_signatures(db, m, {'Layout': lself}).items():
                    if k.startswith('GlobalValues.'):
                        # which inputs the field is computed from; for a field built from constants only, which
                        # constants. Operations and constants inside the callees that compute products / ratios are
                        # not part of the signature (refactoring those callees must not matter here).
                        # parameter + its first field only: `main_page` versus `main_page.address` is a matter of how the
                        # callee walks the page, not of which input the field depends on
                        src = sorted({'.'.join(x.split('.')[:2]) for x in v if x.startswith('a') and x[1:2].isdigit()})
                        d[f'{meth}/{k}'] = src if src else [x for x in v if x.startswith('val:')]
        out[lname] = d
    return out


def global_values(db, rep, lay, cfgname):
    """every field of the GlobalValues handed to the generated evaluator is computed from the same interaction element,
    public-input value, constant and operations as confirmed on the pinned tree (tables/global_values.json): z and alpha
    not swapped, each product/ratio in its own field."""
    import json
    import os
    path = os.path.join(os.path.dirname(os.path.dirname(os.path.dirname(os.path.abspath(__file__)))), 'tables', 'global_values.json')
    want = json.load(open(path))['layouts']
    cur = global_values_signatures(db, lay)
    n = 0
    for lname in sorted(cur):
        diffs = []
        for k, sig in sorted(want.get(lname, {}).items()):
            c = cur[lname].get(k)
            if c is None:
                continue
            n += 1
            if c != sig:
                diffs.append(f'{k.split(".")[-1]}: {[x for x in c if x not in sig][:3]} instead of {[x for x in sig if x not in c][:3]}')
        rep.ob('C01.global-values', lname, not diffs, f'{lname}: GlobalValues fields' + (' as confirmed' if not diffs else ' changed: ' + '; '.join(diffs[:3])),
               f'crates/air/src/layout/{lname}/mod.rs', cfgname)
    rep.floor('C01.global-values', 'GlobalValues fields compared', n, 100)
