"""C09 — proof of work accepted exactly when the hash has the required zero bits."""
import cfg as cfgmod
import common
import dataflow
import exprtree
import guardtable as GT
import hashsites
import literals
import obligations
from common import *
from facts import op_place

EXPLANATION = (
    '(a) difficulty bounds: the only rejecting comparisons of pow::Config::validate are n_bits >= MIN and n_bits <= MAX on '
    'every accepting path, with MIN = 20 and MAX = 50 read from the const items (accepted set = 20..=50), and '
    'StarkConfig::validate / verify reach it with a propagated verdict before stark_commit. (b) order: in '
    'UnsentCommitment::commit the digest read dominates the verify_pow call (whose first argument is the big-endian '
    'bytes of that digest), the call is checked with ? and dominates the absorb of the nonce; the absorb precedes the '
    'query squeezes (C08 language). (c) preimage layout, from the ordered mutation events on each buffer/hasher of '
    'verify_pow (straight-line MIR): buffer1 = MAGIC.to_be_bytes() || digest || n_bits, hash1 = H(buffer1); buffer2 = '
    'hash1 || nonce.to_be_bytes(), hash2 = H(buffer2); MAGIC literal = 0x0123456789abcded; no little-endian conversion or '
    'reversal occurs in the function. (d) hasher per feature: under each of the four hash configurations both hashers '
    'are Keccak-256 resp. Blake2s-256 as the feature says. (e) threshold: acceptance requires (strictly) '
    'from_bytes_be(hash2[0..16]) < 2^(128 - n_bits): prefix length 16 bytes = 128 bits equals the constant the difficulty '
    'is subtracted from.')
NOT_DECIDED = ['bit-level equivalence of "top 128 bits < 2^(128-n)" with "n leading zero bits" beyond the shape match (128 = 8*16, strict <)',
               'the hash functions themselves (sha3 / blake2 crates)']
TRUSTED = ['rustc nightly MIR', 'sha3/blake2/digest crates', 'expected event table in rules/props/c09.py']


def linear_blocks(fn):
    out = []
    b = 0
    seen = set()
    while b not in seen:
        seen.add(b)
        out.append(b)
        s = fn.succ(b)
        if len(s) != 1:
            break
        b = s[0]
    return out


def buffer_events(db, fn):
    """ordered (class, call name, [arg trees], callee full name) for calls whose first argument is a
    &mut / owned local, along the straight-line prefix of fn"""
    fl = dataflow.Flow(db, fn)
    T = exprtree.Trees(db, fn)
    ev = []
    for bi in linear_blocks(fn):
        t = fn.blocks[bi]['term']
        if t['k'] != 'call' or not t.get('args'):
            continue
        pl = op_place(t['args'][0])
        if pl is None:
            continue
        ty = fn.local_ty(pl['l'])
        cls = fl.find(pl['l'])
        ev.append((cls, t['f'].get('name'), [T.operand(a) for a in t['args'][1:]], t['f'].get('full') or '', bi,
                   ty, T.operand(t['args'][0])))
    return ev, fl, T


def run(ctx, rep):
    db = ctx.main
    cfg = db.config
    # ---------- (a) bounds ----------
    fn = db.fn(POW_CONFIG_VALIDATE, 'C09.bounds')
    gs = [g for g in dataflow.effective_guards(db, POW_CONFIG_VALIDATE) if getattr(g, 'kind', None) not in ('discr', 'bounds')]
    lo = literals.const_value(db, 'swiftness_pow::config::MIN_PROOF_OF_WORK_BITS')
    hi = literals.const_value(db, 'swiftness_pow::config::MAX_PROOF_OF_WORK_BITS')
    tab = [GT.Entry('n_bits>=20', 'LE', {'val:20'}, {'a1.n_bits'}), GT.Entry('n_bits<=50', 'LE', {'a1.n_bits'}, {'val:50'})]
    matched, unexpected = GT.match_table(db, gs, tab)
    for e in tab:
        rep.ob('C09.bounds', e.name, bool(matched[e.name]),
               f'pow::Config::validate must require {GT.describe(e.rel, e.lhs, e.rhs)} on every accepting path (consts: MIN={lo}, MAX={hi})',
               fn.loc(), cfg, sample=True)
    rep.ob('C09.bounds', 'exactly', not unexpected, f'other rejecting conditions in pow::Config::validate: {[GT.describe(g.rel, l, r) for g, l, r in unexpected]}',
           fn.loc(), cfg)
    lay = db.layouts()
    b = {'Layout': sorted(lay.values())[0]}
    obligations.check_chain(db, rep, 'C09.bounds', 'validated-before-commit', [VERIFY, CONFIG_VALIDATE, POW_CONFIG_VALIDATE], b, None, cfg)
    v = db.fn(VERIFY, 'C09.bounds')
    dom = v.dominators()
    # the call that leads to validation dominates the call that leads to stark_commit (they may be the same call when
    # verify is split into stages; then the stage itself is checked by the chain above)
    bv = cfgmod.blocks_reaching(v, db, {CONFIG_VALIDATE}, b)
    bc = cfgmod.blocks_reaching(v, db, {STARK_COMMIT}, b) - bv
    if not bc and cfgmod.blocks_reaching(v, db, {STARK_COMMIT}, b):
        # both are reached through the same call(s): look inside that stage
        stage = [r for bi, t in v.calls() if bi in bv for r in db.resolve(t['f'], b) if r in db.fns and db.fns[r].has_mir]
        if len(stage) == 1:
            v = db.fns[stage[0]]
            dom = v.dominators()
            bv = cfgmod.blocks_reaching(v, db, {CONFIG_VALIDATE}, b)
            bc = cfgmod.blocks_reaching(v, db, {STARK_COMMIT}, b) - bv
    rep.ob('C09.bounds', 'validate-dominates-commit', bool(bv) and bool(bc) and all(any(x in dom.get(c, ()) for x in bv) for c in bc),
           'config validation dominates stark_commit in verify', v.loc(), cfg)
    # ---------- (b) order in commit ----------
    c = db.fn(POW_COMMIT, 'C09.order')
    domc = c.dominators()
    bd = cfgmod.blocks_calling(c, db, {T_DIGEST})
    bp = cfgmod.blocks_calling(c, db, {VERIFY_POW})
    ba = cfgmod.blocks_calling(c, db, {T_ABSORB64, T_ABSORB1, T_ABSORBV})
    ok = bool(bd and bp and ba) and all(any(d in domc[p] for d in bd) for p in bp) and all(any(p in domc[a] for p in bp) for a in ba)
    rep.ob('C09.order', 'digest<verify_pow<absorb', ok, f'commit: digest read at {sorted(bd)}, verify_pow at {sorted(bp)}, nonce absorb at {sorted(ba)} (dominance order required)',
           c.loc(), cfg)
    obligations.check_chain(db, rep, 'C09.order', 'pow-checked', [VERIFY, STARK_COMMIT, POW_COMMIT, VERIFY_POW], b, None, cfg)
    Tc = exprtree.Trees(db, c)
    for bi, t in c.calls():
        if t['f'].get('resolved') == VERIFY_POW:
            a = [exprtree.show(Tc.operand(x)) for x in t['args']]
            rep.ob('C09.order', 'verify_pow-arguments', 'digest(a2)' in a[0] and 'to_bytes_be' in a[0] and a[1] == 'a3.n_bits' and a[2] == 'a1.nonce',
                   f'verify_pow({a})', c.loc(t['line']), cfg)
        if t['f'].get('resolved') in (T_ABSORB64,):
            a = exprtree.show(Tc.operand(t['args'][1]))
            rep.ob('C09.order', 'absorbs-nonce', a == 'a1.nonce', f'absorbed value: {a}', c.loc(t['line']), cfg)
    # ---------- (c) preimage ----------
    preimage(db, rep)
    threshold(db, rep)
    # ---------- (d) hasher per feature ----------
    for cname in ctx.ws_configs():
        d2 = ctx.db(cname)
        import extract
        want = 'Keccak256' if extract.CONFIGS[cname]['hash'].startswith('keccak') else 'Blake2s'
        f2 = d2.fn(VERIFY_POW, 'C09.hasher')
        import hashsites
        news = [t['f'].get('full') or '' for b_ in common.bodies(d2, f2, helpers=2) for _, t in b_.calls()
                if t['f'].get('name') == 'new' and 'Digest' in (t['f'].get('path') or '')]
        napps = len(hashsites.applications(d2, f2))
        ok = bool(news) and all(want in n for n in news) and napps == 2
        if want == 'Blake2s':
            # Blake2s256 = 32-byte output: U32 = UInt<...B1,B0,B0,B0,B0,B0>
            ok = ok and all(n.count('B0') == 5 and 'B1' in n for n in news)
        rep.ob('C09.hasher', cname, ok, f'{cname}: PoW hashers {[n.split(" as ")[0][-60:] for n in news]} applied {napps} time(s) (expected {want}-256, applied twice)', f2.loc(), cname)


def preimage(db, rep):
    cfg = db.config
    fn = db.fn(VERIFY_POW, 'C09.preimage')
    ev, fl, T = buffer_events(db, fn)
    magic = literals.const_value(db, 'swiftness_pow::pow::MAGIC')
    rep.ob('C09.preimage', 'MAGIC', magic == 0x0123456789abcded, f'MAGIC = {hex(magic) if magic is not None else None}', fn.loc(), cfg)
    by_cls = {}
    for cls, name, args, full, bi, ty, a0 in ev:
        by_cls.setdefault(cls, []).append((name, args, full, bi, ty))
    bufs = [(c, e) for c, e in by_cls.items() if any('Vec<u8>' in x[4] for x in e) and any(x[0] in ('extend_from_slice', 'push', 'extend') for x in e)]
    bufs.sort(key=lambda ce: ce[1][0][3])
    shown = [[(n, [exprtree.show(a)[:60] for a in args]) for n, args, *_ in e if n in ('extend_from_slice', 'push', 'extend')] for c, e in bufs]
    ok1 = ok2 = False
    if len(bufs) == 2:
        e1 = [(n, args) for n, args, *_ in bufs[0][1] if n in ('extend_from_slice', 'push', 'extend')]
        e2 = [(n, args) for n, args, *_ in bufs[1][1] if n in ('extend_from_slice', 'push', 'extend')]
        ok1 = (len(e1) == 3 and exprtree.show(e1[0][1][0]) == f'to_be_bytes({hex(magic)})' and e1[1][1][0] == ('arg', 1)
               and e1[2][0] == 'push' and e1[2][1][0] == ('arg', 2))
        s20 = exprtree.show(e2[0][1][0]) if e2 else ''
        h1 = e2[0][1][0] if e2 else None
        from_hash = 'finalize' in s20 or (isinstance(h1, tuple) and isinstance(h1[0], str) and hashsites.is_hash_helper(db, h1[0]))
        ok2 = (len(e2) == 2 and from_hash and exprtree.show(e2[1][1][0]) == 'to_be_bytes(a3)')
    rep.ob('C09.preimage', 'buffer1', ok1, f'first preimage must be MAGIC_be || digest || n_bits; events: {shown[0] if shown else None}', fn.loc(), cfg, sample=True)
    rep.ob('C09.preimage', 'buffer2', ok2, f'second preimage must be hash1 || nonce_be; events: {shown[1] if len(shown) > 1 else None}', fn.loc(), cfg)
    # two hash applications (a hasher updated here, or a call of a one-shot hash helper), each consuming its own buffer
    # after the buffer is complete; the second buffer is filled after the first application
    apps = hashsites.applications(db, fn)
    defs = common.defs_of(fn)

    def cls_of(op, depth=0):
        pl = op_place(op)
        if pl is None:
            return None
        c_ = fl.find(pl['l'])
        if depth > 6:
            return c_
        for _, kind, rv in defs.get(pl['l'], []):
            if kind == 'assign' and rv['k'] == 'ref':      # &buffer / &*slice: resolve through the borrow
                c_ = cls_of({'cp': {'l': rv['place']['l'], 'p': []}}, depth + 1)
            if kind == 'assign' and rv['k'] == 'use':
                c_ = cls_of(rv['a'], depth + 1)
            if kind == 'call' and rv['f'].get('name') in ('deref', 'as_slice', 'as_ref', 'borrow') and rv.get('args'):
                c_ = cls_of(rv['args'][0], depth + 1)
        return c_
    okh = len(apps) == 2 and len(bufs) == 2
    if okh:
        order = {b: i for i, b in enumerate(linear_blocks(fn))}
        for (kind, abi, aop, at), (bc, be) in zip(apps, bufs):
            last_fill = max(x[3] for x in be if x[0] in ('extend_from_slice', 'push', 'extend'))
            okh = okh and abi in order and last_fill in order and order[abi] > order[last_fill] and cls_of(aop) == bc
        first_fill2 = min(x[3] for x in bufs[1][1] if x[0] in ('extend_from_slice', 'push', 'extend'))
        okh = okh and order.get(first_fill2, -1) > order.get(apps[0][1], 1 << 30)
        # an inline hasher is updated exactly once
        hs = [(c, e) for c, e in by_cls.items() if any(x[0] == 'update' for x in e)]
        okh = okh and all(len([x for x in e if x[0] == 'update']) == 1 for c, e in hs)
    rep.ob('C09.preimage', 'hashers', okh, 'each hasher is updated once with its own buffer after the buffer is complete', fn.loc(), cfg)
    bad = [t['f'].get('name') for _, t in fn.calls() if t['f'].get('name') in ('to_le_bytes', 'reverse', 'swap_bytes', 'to_ne_bytes', 'from_bytes_le', 'from_bytes_le_slice', 'rev')]
    rep.ob('C09.preimage', 'big-endian-only', not bad, f'little-endian / reversing calls in verify_pow: {bad}', fn.loc(), cfg)


def threshold(db, rep):
    import re
    cfg = db.config
    fn = db.fn(VERIFY_POW, 'C09.threshold')
    T = exprtree.Trees(db, fn)
    fl = dataflow.Flow(db, fn)
    gs = [g for g in dataflow.own_guards(db, fn, fl) if g.rel == 'LT' and g.covers == 'all' and g.reject == 'err']
    ok = False
    shown = []
    undecided = True
    # the accept condition as a guard (however it is written: `a < b` kept, `a >= b` rejected, operands swapped ...):
    # strictly  work < threshold  with the hash on the small side and n_bits on the large side
    def side_is_hash(lv):
        return any('finalize' in x or 'Digest' in x or 'hash' in x.split('::')[-1].lower() for x in lv if x.startswith('call:')) and \
            not any(x.startswith('op:pow') for x in lv)

    def side_is_threshold(lv):
        return 'a2' in lv and any(x.startswith('op:pow') for x in lv) and not any('Digest' in x or 'finalize' in x for x in lv)
    strict = [g for g in gs if side_is_hash(g.lhs) and side_is_threshold(g.rhs)]
    loose = [g for g in dataflow.own_guards(db, fn, fl) if g.rel == 'LE' and side_is_hash(g.lhs) and side_is_threshold(g.rhs)]
    for bi, t in fn.calls():
        if t['f'].get('name') in ('lt', 'le', 'gt', 'ge') and t['f'].get('trait', '').startswith('core::cmp'):
            a, b2 = T.operand(t['args'][0]), T.operand(t['args'][1])
            sa, sb = exprtree.show(a), exprtree.show(b2)
            if 'from_bytes_be' not in sa and 'from_bytes_be' in sb:
                a, b2, sa, sb = b2, a, sb, sa
            shown.append((t['f'].get('name'), sa[:120], sb[:60]))
            # from_bytes_be_slice(<hash2>[Range{0, k}])  vs  pow(2, sub(N, a2))
            m = re.search(r'Range\{start: 0, end: (\d+)\}', sa)
            n = re.search(r'pow(?:_felt)?\(2, sub\((\d+), a2\)', sb)
            if m and n and 'from_bytes_be' in sa and ('finalize' in sa or _has_helper_app(db, a)):
                undecided = False
                ok = int(m.group(1)) * 8 == int(n.group(1)) and bool(strict) and not loose
    # no modular reduction: a digest enters the field only through a constant sub-range of at most 31 bytes
    for bi, t in fn.calls():
        if t['f'].get('name') in ('from_bytes_be_slice', 'from_bytes_be', 'from_bytes_le', 'from_bytes_le_slice'):
            a = T.operand(t['args'][0])
            sa = exprtree.show(a)
            is_hash = 'finalize' in sa or _has_helper_app(db, a)
            m = re.search(r'Range\{start: (\d+), end: (\d+)\}', sa) if is_hash else None
            width = int(m.group(2)) - int(m.group(1)) if m else None
            rep.ob('C09.threshold', 'no-field-reduction', not is_hash or (width is not None and width <= 31),
                   f'hash bytes converted to a field element: {sa[:120]} (width {width} bytes): a 32-byte value is reduced modulo p, so hashes just '
                   'above a multiple of p compare as small', fn.loc(t['line']), cfg)
    if undecided:
        rep.undecided.append('C09.threshold: threshold written in an unrecognised form; not decided (no alarm)')
    else:
        rep.ob('C09.threshold', 'prefix-bits=constant,strict', ok,
               f'acceptance requires from_bytes_be(hash2[0..k]) < 2^(N - n_bits) with 8k == N and a strict comparison; found {shown}',
               fn.loc(), cfg)


def _has_helper_app(db, t):
    if isinstance(t, tuple):
        if t and isinstance(t[0], str) and '::' in t[0] and hashsites.is_hash_helper(db, t[0]):
            return True
        return any(_has_helper_app(db, x) for x in t[1:])
    if isinstance(t, dict):
        return any(_has_helper_app(db, x) for x in t.values())
    return False
