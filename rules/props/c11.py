"""C11 — config validation accepts exactly consistent, sufficiently secure configs."""
import common
import dataflow
import guardtable as GT
from guardtable import Entry

EXPLANATION = (
    'Every rejecting branch reachable from StarkConfig::validate (pow, traces, vector, FRI validation '
    'inlined by summary substitution, verdict propagation checked) is extracted as a guard '
    '(relation required for acceptance, leaf set of each operand with constants by value, whether it '
    'lies on every accepting path / every loop iteration). The guard set is compared both ways with the '
    'frozen table of the conjuncts the statement lists: a missing, loosened or re-targeted conjunct is '
    'reported as missing; a rejecting condition on a configuration field that is neither in the table '
    'nor in the short list of permitted extras is reported as an unexpected rejection condition '
    '("exactly").')
NOT_DECIDED = [
    "that Felt's PartialOrd compares canonical integers (external crate)",
    'arithmetic wrap-around of the security product is excluded only through the presence of the bounds on its operands',
]
TRUSTED = ['rustc nightly MIR', 'the guard table in rules/props/c11.py (one line of reason per entry)',
           'leaf-set dataflow is over-approximate (dependencies can only appear)']

S = 'a1.'
ECOS = S + 'log_n_cosets'
ETR = S + 'log_trace_domain_size'
NQ = S + 'n_queries'
NB = S + 'proof_of_work.n_bits'
NVF = S + 'n_verifier_friendly_commitment_layers'
FRI = S + 'fri.'
STEP = FRI + 'fri_step_sizes[*]'
INNER = FRI + 'inner_layers[*].'


def table():
    t = [
        Entry('pow-bits>=20', 'LE', {'val:20'}, {NB}, why='proof-of-work bits in 20..=50'),
        Entry('pow-bits<=50', 'LE', {NB}, {'val:50'}, why='proof-of-work bits in 20..=50'),
        Entry('security', 'LE', {'a2'}, {NQ, ECOS, NB, 'op:add', 'op:mul'},
              why='n_queries*log_n_cosets + pow bits reaches the requested level'),
        Entry('blowup>=1', 'LE', {'val:1'}, {ECOS}, why='blow-up exponent in 1..=16'),
        Entry('blowup<=16', 'LE', {ECOS}, {'val:16'}, why='blow-up exponent in 1..=16'),
        Entry('queries>=1', 'LE', {'val:1'}, {NQ}, why='query count in 1..=48'),
        Entry('queries<=48', 'LE', {NQ}, {'val:48'}, why='query count in 1..=48'),
        Entry('cols-original', 'EQ', {S + 'traces.original.n_columns'}, {'a3'}, why='trace column counts equal the layout\'s'),
        Entry('cols-interaction', 'EQ', {S + 'traces.interaction.n_columns'}, {'a4'}, why='trace column counts equal the layout\'s'),
    ]
    for nm, pre in (('original', S + 'traces.original.vector.'), ('interaction', S + 'traces.interaction.vector.'),
                    ('composition', S + 'composition.vector.')):
        t.append(Entry(f'height-{nm}', 'EQ', {pre + 'height'}, {ETR, ECOS, 'op:add'},
                       why='commitment height = trace exponent + blow-up exponent'))
        t.append(Entry(f'friendly-{nm}', 'EQ', {pre + 'n_verifier_friendly_commitment_layers'}, {NVF},
                       why='commitment carries the global friendly-layer count'))
    t += [
        Entry('fri-layers>=2', 'LE', {'val:2'}, {FRI + 'n_layers'}, why='2..=15 layers'),
        Entry('fri-layers<=15', 'LE', {FRI + 'n_layers'}, {'val:15'}, why='2..=15 layers'),
        Entry('fri-first-step-0', 'EQ', {STEP}, {'val:0'}, why='first step 0'),
        Entry('fri-step>=1', 'LE', {'val:1'}, {STEP}, 'iteration', why='other steps in 1..=4'),
        Entry('fri-step<=4', 'LE', {STEP}, {'val:4'}, 'iteration', why='other steps in 1..=4'),
        Entry('fri-cols=2^step', 'EQ', {INNER + 'n_columns'}, {STEP, 'val:2', 'op:pow'}, 'iteration',
              alts=[('EQ', {INNER + 'n_columns'}, {STEP, 'val:2', 'op:pow_felt'})], why='2^step columns per layer'),
        Entry('fri-heights-telescope', 'EQ', {INNER + 'vector.height'}, {STEP, FRI + 'log_input_size', 'op:sub'},
              'iteration', why='telescoping heights per layer'),
        Entry('fri-friendly', 'EQ', {INNER + 'vector.n_verifier_friendly_commitment_layers'}, {NVF}, 'iteration',
              why='inner layers carry the global friendly-layer count'),
        Entry('fri-last-bound<=15', 'LE', {FRI + 'log_last_layer_degree_bound'}, {'val:15'}, why='last-layer bound at most 2^15'),
        Entry('fri-input=steps+bound+blowup', 'EQ', {STEP, FRI + 'log_last_layer_degree_bound', ECOS, 'op:add'},
              {FRI + 'log_input_size'}, opt={'val:0'}, why='input size = sum of steps + last bound + blow-up'),
        Entry('fri-input=eval-domain', 'EQ', {FRI + 'log_input_size'}, {ETR, ECOS, 'op:add'},
              alts=[('EQ', {STEP, FRI + 'log_last_layer_degree_bound', ECOS, 'op:add'}, {ETR, ECOS, 'op:add'}),
                    ('EQ', {STEP, FRI + 'log_last_layer_degree_bound', 'op:add'}, {ETR}),
                    ('EQ', {STEP, FRI + 'log_last_layer_degree_bound', 'op:add', 'val:0'}, {ETR}),
                    ('EQ', {STEP, FRI + 'log_last_layer_degree_bound', ECOS, 'op:add', 'val:0'}, {ETR, ECOS, 'op:add'})],
              why='FRI input size = evaluation-domain exponent (otherwise the low-degree test is vacuous)'),
    ]
    return t


def extras():
    """rejecting conditions that are not conjuncts of the statement but are implied by it"""
    cols = [S + 'traces.original.n_columns', S + 'traces.interaction.n_columns']
    e = []
    for c in cols:
        e.append(Entry('cols>=1', 'LE', {'val:1'}, {c}, 'any', why='implied by the column-count equality (layouts have 1..=128 columns)'))
        e.append(Entry('cols<=128', 'LE', {c}, {'val:128'}, 'any', why='implied by the column-count equality'))
    e.append(Entry('last-bound>=0', 'LE', {'val:0'}, {FRI + 'log_last_layer_degree_bound'}, 'any', why='trivially true for field elements'))
    # vector lengths against n_layers: a short vector is rejected (Err or panic) - not an acceptance
    for rel in ('LT', 'LE', 'EQ'):
        for v in (FRI + 'fri_step_sizes', FRI + 'inner_layers'):
            e.append(Entry('len-vs-layers', rel, {f'len({v})'}, {FRI + 'n_layers'}, 'any', opt={'val:1', 'op:sub', 'op:add'},
                           alts=[(rel, {FRI + 'n_layers'}, {f'len({v})'})],
                           why='length of the FRI description vectors against n_layers: rejects malformed input (C18), accepts nothing new'))
    return e

THOROUGH_MAIN_CONFIGS = ['b248s6', 'nostd']


def run(ctx, rep):
    tab = table()
    ext = extras()
    for cfg in ctx.stone_configs():
        db = ctx.db(cfg)
        fn = db.fn(common.CONFIG_VALIDATE, 'C11')
        guards = dataflow.effective_guards(db, common.CONFIG_VALIDATE)
        cfg_guards = [g for g in guards if g.reject in ('err', 'mixed', 'panic')]
        matched, unexpected = GT.match_table(db, cfg_guards, tab, ext)
        for e in tab:
            gs = matched[e.name]
            ok = bool(gs)
            where = db.fns[gs[0].fn].loc(gs[0].line) if gs else fn.loc()
            rep.ob('C11.conjunct', e.name, ok,
                   (f'{e.why}: guard {GT.describe(e.rel, e.lhs, e.rhs)} ' +
                    ('found' if ok else 'is not required on every accepting path of StarkConfig::validate')),
                   where, cfg, sample=(e.name in ('security', 'fri-input=eval-domain')))
        for g, lhs, rhs in unexpected:
            touches = any(x.startswith('a1') or x.startswith('len(a1') for x in lhs | rhs)
            if not touches and g.reject != 'err':
                continue
            rep.ob('C11.exact', f'{g.fn.split("::")[-3]}::{g.fn.split("::")[-1]}:{GT.describe(g.rel, lhs, rhs)}', False,
                   f'unexpected rejection condition {GT.describe(g.rel, lhs, rhs)} (reject by {g.reject})',
                   db.fns[g.fn].loc(g.line), cfg)
        n_exp = sum(1 for g in cfg_guards if getattr(g, 'kind', None) not in ('discr', 'bounds'))
        rep.ob('C11.exact', 'no-unexpected', True,
               f'{n_exp} rejecting comparisons extracted, {len(unexpected)} outside the table before filtering', fn.loc(), cfg)
        rep.note(f'guards[{cfg}]', [g.key()[:200] for g in cfg_guards if getattr(g, 'kind', None) not in ('discr', 'bounds')])
        # measured on the pinned tree: 26 comparison guards reach StarkConfig::validate
        rep.floor('C11', f'comparison guards extracted [{cfg}]', n_exp, 24)
    rep.note('table', [f'{e.name}: {GT.describe(e.rel, e.lhs, e.rhs)} [{e.covers}] -- {e.why}' for e in tab])
