"""C14 — public-input validation and returned hashes follow the memory layout."""
import re
import common
import dataflow
import fieldflow
import guardtable as GT
import literals
import obligations
from guardtable import Entry
from common import *

EXPLANATION = (
    '(a) Per layout, the rejecting comparisons of validate_public_input are extracted (operands as leaf sets with the '
    'selected segment index kept as idx:<SEGMENT> and constants by value) and compared both ways with a table generated '
    "from the layout's own declarations: log_n_steps < 80; 2^log_n_steps * CPU_COMPONENT_HEIGHT * step == trace length; "
    'segments.len() == N_SEGMENTS; rc_min < rc_max <= 0xffff; layout == LAYOUT_CODE (whose literal must be the ASCII of '
    "the layout name); and for EVERY builtin segment index declared in the layout's `segments` module a guard "
    '(stop_ptr - begin_addr of that very segment) / cells-per-instance <= trace_length / that builtin\'s ROW_RATIO '
    '(exhaustiveness of the handler table against the segment table; cells per instance from the Cairo builtin '
    'specification). The dynamic layout additionally needs the three unit-budget guards and a checked delegation to '
    'check_asserts. Any other rejecting condition on a public-input field is reported. (b) address-based extraction: in '
    'each verify_public_input the main-page `address` field must reach a rejecting comparison against the program start '
    'resp. the output segment start, and the number of cells taken must be compared with the page length. (c) each '
    'component of the returned pair depends on main-page values, a count and Pedersen. (d) added after the mutation '
    'campaigns: the layouts\' numeric constants agree with tables/constants.json; verify_public_input\'s entry conditions '
    '(initial/final ap < 2^64, no continuous pages, initial pc = 1, final pc = 1 + 4) and the (offset, address, length) of '
    'its two extract_range calls; safe_mult / safe_div compute a product / floor quotient; the three dynamic unit budgets '
    'are sums of products with the specified coefficients.')
NOT_DECIDED = [
    'that field_div by the instance size rejects non-multiples (true for an arithmetic reason: the quotient is then a huge field element)',
    'that the dynamic-layout unit budgets are the right ones beyond their shape (sum of products with the specified coefficients)',
]
TRUSTED = ['rustc nightly MIR', 'cells-per-instance table (Cairo builtin specification) in rules/props/c14.py']

CELLS = {'PEDERSEN': 3, 'RANGE_CHECK': 1, 'ECDSA': 2, 'BITWISE': 5, 'EC_OP': 7, 'KECCAK': 16, 'POSEIDON': 6,
         'RANGE_CHECK96': 1, 'ADD_MOD': 7, 'MUL_MOD': 7}
NON_BUILTIN = {'PROGRAM', 'EXECUTION', 'N_SEGMENTS', 'OUTPUT'}
U128MAX = 2 ** 128 - 1
SEG = 'a1.segments[*].'


def layout_consts(db, lname):
    pre = f'swiftness_air::layout::{lname}::'
    out = {}
    for p, c in db.consts.items():
        if p.startswith(pre) and p.count('::') == pre.count('::'):
            v = literals.const_value(db, p)
            out[p[len(pre):]] = v
    segs = {}
    spre = pre + 'segments::'
    for p, c in db.consts.items():
        if p.startswith(spre):
            segs[p[len(spre):]] = literals.const_value(db, p)
    return out, segs


def table_for(db, lname):
    consts, segs = layout_consts(db, lname)
    t = []
    dyn = lname == 'dynamic'
    t.append(Entry('max-steps', 'LT', {'a1.log_n_steps'}, {'val:80'}, why='step count below 2^80'))
    lhs = {'a1.log_n_steps', 'op:mul', 'op:pow_felt', 'val:2', 'val:%d' % consts.get('CPU_COMPONENT_HEIGHT', -1)}
    if dyn:
        lhs.add('a1.dynamic_params.cpu_component_step')
    else:
        lhs.add('val:%d' % consts.get('CPU_COMPONENT_STEP', -1))
    t.append(Entry('trace-length', 'EQ', lhs, {'a2.trace_domain_size'}, why='step count matches the trace length'))
    t.append(Entry('segment-count', 'EQ', {'len(a1.segments)'}, {'val:%d' % segs.get('N_SEGMENTS', -1)}, why='segment count'))
    t.append(Entry('rc-order', 'LT', {'a1.range_check_min'}, {'a1.range_check_max'}, why='range-check bounds ordered'))
    t.append(Entry('rc-max', 'LE', {'a1.range_check_max'}, {'val:65535'}, why='range-check maximum'))
    code = consts.get('LAYOUT_CODE')
    t.append(Entry('layout-code', 'EQ', {'a1.layout'}, {'val:%s' % code}, why='layout code'))
    for b, idx in sorted(segs.items()):
        if b in NON_BUILTIN:
            continue
        cells = CELLS.get(b)
        lhs = {SEG + 'begin_addr', SEG + 'stop_ptr', 'idx:' + b, 'op:sub'}
        if cells is None:
            t.append(Entry(f'builtin-{b}', 'LE', {'unknown builtin ' + b}, set(), why=f'no cells-per-instance entry for segment {b}'))
            continue
        if cells != 1:
            lhs |= {'op:field_div', 'val:%d' % cells}
        if dyn:
            low = b.lower()
            cands = [f'a1.dynamic_params.{low}_builtin_row_ratio', f'a1.dynamic_params.{low}_row_ratio']
            alts = []
            for c in cands:
                alts.append(('LE', lhs, {c, 'a2.trace_domain_size', 'op:field_div'}))
            e = Entry(f'builtin-{b}', 'LE', lhs, {cands[0], 'a2.trace_domain_size', 'op:field_div'}, opt={'val:0'}, alts=alts[1:],
                      why=f'{b} usage within what the trace holds')
        else:
            rr = [k for k in consts if re.match(rf'^{b}(_BUILTIN)?_ROW_RATIO$', k)]
            ratio = consts.get(rr[0]) if rr else -1
            e = Entry(f'builtin-{b}', 'LE', lhs, {'a2.trace_domain_size', 'op:field_div', 'val:%d' % ratio},
                      why=f'{b} usage (cells/{cells}) within trace_length/{ratio}')
        t.append(e)
    if dyn:
        DP = 'a1.dynamic_params.'
        t.append(Entry('memory-units', 'LE', {DP + 'memory_units_row_ratio', 'a2.trace_domain_size'},
                       {DP + 'memory_units_row_ratio', 'a2.trace_domain_size', 'op:field_div'}, opt=None, why='memory unit budget'))
        t.append(Entry('range-check-units', 'LE', {DP + 'range_check_builtin_row_ratio'},
                       {DP + 'range_check_units_row_ratio', 'a2.trace_domain_size', 'op:field_div'}, opt=None, why='range-check unit budget'))
        t.append(Entry('diluted-units', 'LE', {DP + 'bitwise_row_ratio'},
                       {DP + 'diluted_units_row_ratio', 'a2.trace_domain_size', 'op:field_div'}, opt=None, why='diluted unit budget'))
    ext = [
        Entry('rc-min>=0', 'LE', {'val:0'}, {'a1.range_check_min'}, 'any', why='trivially true'),
        Entry('output-uses', 'LE', {SEG + 'begin_addr', SEG + 'stop_ptr', 'idx:OUTPUT', 'op:sub'}, {'val:%d' % U128MAX}, 'any',
              why='output segment size is a small integer'),
    ]
    return t, ext, consts, segs


class _Open(Entry):
    """entry whose listed leaves are required but any further leaves are allowed (opt=None)"""

    def _side(self, have, want):
        return want <= have

THOROUGH_MAIN_CONFIGS = ['b248s6', 'nostd']


def run(ctx, rep):
    db = ctx.main
    cfg = db.config
    # layout parameters (builtin ratios, segment indices, component sizes, AIR sizes) and the Felt constants they use
    nck = common.constants_check(db, rep, 'C14.constants', cfg, layouts=True, other=('swiftness_air::consts::',))
    rep.floor('C14.constants', 'constants compared with the table', nck, 300)
    helpers(db, rep, cfg)
    unit_budgets(db, rep, cfg)
    lay = db.layouts()
    rep.floor('C14', 'LayoutTrait impls', len(lay), 7)
    n_builtin = 0
    for lname, lself in sorted(lay.items()):
        m = common.layout_method(db, lself, 'validate_public_input', 'C14')
        tab, ext, consts, segs = table_for(db, lname)
        guards = dataflow.effective_guards(db, m.path)
        own = [g for g in guards if not g.fn.endswith('::check_asserts')]
        matched, unexpected = GT.match_table(db, own, tab, ext)
        for e in tab:
            gs = matched[e.name]
            if e.name.startswith('builtin-'):
                n_builtin += 1
            rep.ob('C14.validate', f'{lname}/{e.name}', bool(gs),
                   f'{e.why}: {GT.describe(e.rel, e.lhs, e.rhs)} ' + ('found' if gs else f'is not required on every accepting path of {lname}::validate_public_input'),
                   db.fns[gs[0].fn].loc(gs[0].line) if gs else m.loc(), cfg, sample=(lname == 'recursive' and e.name == 'builtin-PEDERSEN'))
        for g, lhs, rhs in unexpected:
            if not any(x.startswith(('a1', 'len(a1')) for x in lhs | rhs):
                continue
            rep.ob('C14.exact', f'{lname}:{GT.describe(g.rel, lhs, rhs)}', False,
                   f'unexpected rejection condition in {lname}::validate_public_input: {GT.describe(g.rel, lhs, rhs)} (reject by {g.reject})',
                   db.fns[g.fn].loc(g.line), cfg)
        rep.ob('C14.exact', f'{lname}/no-unexpected', True, f'{len(own)} guards extracted', m.loc(), cfg)
        # layout code literal = ASCII of the layout name
        code = consts.get('LAYOUT_CODE')
        rep.ob('C14.validate', f'{lname}/layout-code-literal', code == int.from_bytes(lname.encode(), 'big'),
               f'LAYOUT_CODE of {lname} = {hex(code) if code is not None else None}; ASCII("{lname}") = {hex(int.from_bytes(lname.encode(), "big"))}',
               m.loc(), cfg)
        if lname == 'dynamic':
            ca = [p for p in db.fns if p.endswith('autogenerated_asserts::check_asserts')]
            if not ca:
                rep.fail_closed('C14', 'check_asserts not found')
            else:
                obligations.check_chain(db, rep, 'C14.validate', 'dynamic/check_asserts', [m.path, ca[0]], None, None, cfg)
        extraction(db, rep, lname, lself)
    # counted on the pinned tree: 3+3+3+4+6+7+10 builtin segment guards
    rep.floor("C14", "builtin segment guards", n_builtin, 36)


def extraction(db, rep, lname, lself):
    cfg = db.config
    v = common.layout_method(db, lself, 'verify_public_input', 'C14')
    fl = dataflow.Flow(db, v)
    guards = dataflow.effective_guards(db, v.path)

    def norm(s):
        return GT.norm_side(db, s)
    addr_guards = []
    for g in guards:
        l, r = norm(g.lhs), norm(g.rhs)
        both = l | r
        if any(fieldflow.canon(x) == 'a1.main_page.address' for x in both) and getattr(g, 'kind', None) not in ('discr',) \
                and g.rel == 'EQ':
            addr_guards.append((g, l, r))
    # entry conditions of the extraction: register values of the public memory layout
    MAXA = 'val:%d' % (2 ** 64 - 1)
    vtab = [
        Entry('initial-ap<2^64', 'LT', {SEG + 'begin_addr', 'idx:EXECUTION'}, {MAXA}, why='initial ap below MAX_ADDRESS'),
        Entry('final-ap<2^64', 'LT', {SEG + 'stop_ptr', 'idx:EXECUTION'}, {MAXA}, why='final ap below MAX_ADDRESS'),
        Entry('no-continuous-pages', 'EMPTY', {'a1.continuous_page_headers'}, set(), why='only the main page is supported'),
        Entry('initial-pc=1', 'EQ', {SEG + 'begin_addr', 'idx:PROGRAM'}, {'val:1'}, why='the program starts at INITIAL_PC = 1'),
        Entry('final-pc=initial+4', 'EQ', {SEG + 'stop_ptr', 'idx:PROGRAM'}, {'op:add', 'val:1', 'val:4'},
              alts=[('EQ', {SEG + 'stop_ptr', 'idx:PROGRAM'}, {'val:5'})], why='the program ends at INITIAL_PC + 4'),
    ]
    vm, _ = GT.match_table(db, guards, vtab)
    for e in vtab:
        rep.ob('C14.verify', f'{lname}/{e.name}', bool(vm[e.name]),
               f'{lname}::verify_public_input must require {GT.describe(e.rel, e.lhs, e.rhs)} on every accepting path ({e.why})', v.loc(), cfg)
    # what is extracted: (offset, first address, length) of the two extract_range calls, as leaf sets
    calls = [(bi, t) for bi, t in v.calls() if (t['f'].get('resolved') or '').endswith('::extract_range') and len(t['args']) == 4]
    def nl(op):
        return {x for x in norm(fl.operand_leaves(op)) if not x.startswith('call:')}
    want_prog = ({'val:0'}, {SEG + 'begin_addr', 'idx:PROGRAM'},
                 {SEG + 'begin_addr', 'idx:EXECUTION', 'idx:PROGRAM', 'op:sub', 'val:2'})
    want_out = (None, {SEG + 'begin_addr', 'idx:OUTPUT'}, {SEG + 'begin_addr', SEG + 'stop_ptr', 'idx:OUTPUT', 'op:sub'})
    seen_prog = seen_out = False
    descs = []
    for bi, t in calls:
        off, adr, ln = nl(t['args'][1]), nl(t['args'][2]), nl(t['args'][3])
        descs.append((sorted(off)[:4], sorted(adr), sorted(ln)))
        if off == want_prog[0] and adr == want_prog[1] and ln == want_prog[2]:
            seen_prog = True
        if adr == want_out[1] and ln == want_out[2] and want_out[2] <= off and any(x.startswith('len(a1.main_page') for x in off) and 'op:sub' in off:
            seen_out = True
    rep.ob('C14.verify', f'{lname}/program-range', seen_prog and len(calls) == 2,
           f'program cells = main_page[0 .. initial_fp - 2 - initial_pc) starting at address initial_pc; extract_range calls: {descs}', v.loc(), cfg)
    rep.ob('C14.verify', f'{lname}/output-range', seen_out and len(calls) == 2,
           f'output cells = the last (stop - begin) cells of the main page starting at the output segment address; extract_range calls: {descs}', v.loc(), cfg)
    prog = [g for g, l, r in addr_guards if any(x in ('idx:PROGRAM', 'val:1') or x.endswith('INITIAL_PC') for x in l | r)]
    outp = [g for g, l, r in addr_guards if 'idx:OUTPUT' in (l | r)]
    rep.ob('C14.address', f'{lname}/program-addresses', bool(prog),
           f'{lname}::verify_public_input must reject unless the program cells sit at consecutive addresses from the initial pc: '
           f'no rejecting comparison involves main_page[..].address and the program start ({len(addr_guards)} comparisons on address at all); '
           'cells are taken positionally', v.loc(), cfg, sample=(lname == 'recursive'))
    rep.ob('C14.address', f'{lname}/output-addresses', bool(outp),
           f'{lname}::verify_public_input must reject unless the output cells sit at the output segment addresses: no rejecting '
           'comparison involves main_page[..].address and output_start; cells are taken positionally from the end of the page',
           v.loc(), cfg)
    # page long enough for the program: a rejecting comparison between a count/length of the page and program_end_pc
    lens = []
    for g in guards:
        l, r = norm(g.lhs), norm(g.rhs)
        both = l | r
        page = any(x.startswith('len(a1.main_page') or fieldflow.canon(x) == 'a1.main_page' for x in both)
        if page and any(x.startswith('idx:EXECUTION') or x.startswith('idx:PROGRAM') for x in both) and g.reject in ('err', 'mixed'):
            lens.append(g)
    rep.ob('C14.address', f'{lname}/program-length', bool(lens),
           f'{lname}::verify_public_input must reject a main page shorter than the program (iterator take() silently yields fewer cells)',
           v.loc(), cfg)
    # (c) returned pair
    r0 = fl.find(0)
    ret = fl.ret_ok
    comps = fl.agg.get(r0, {})
    if not comps:
        # Ok((a, b)): find the tuple aggregate
        for b in v.blocks:
            for s in b['stmts']:
                if s['k'] == 'assign' and s['rv'].get('k') == 'agg' and s['rv'].get('agg') == 'tuple' and len(s['rv']['ops']) == 2:
                    comps = {'0': fl.operand_leaves(s['rv']['ops'][0]), '1': fl.operand_leaves(s['rv']['ops'][1])}
    for i, what in (('0', 'program'), ('1', 'output')):
        lv = comps.get(i, set())
        ok = any(x.startswith('call:starknet_crypto::pedersen_hash') for x in lv) and \
            any(fieldflow.canon(x).startswith('a1.main_page') for x in lv if x.startswith('a1')) and \
            (any(x.startswith('len(') for x in lv) or any(x.startswith('call:') and 'len' in x for x in lv) or 'op:sub' in lv)
        rep.ob('C14.hashes', f'{lname}/{what}-hash', ok,
               f'{what} hash must be a Pedersen chain over main-page values and a count; leaves: {sorted(x for x in lv if not x.startswith("a1.segments"))[:6]}',
               v.loc(), cfg)


def helpers(db, rep, cfg):
    """the two arithmetic helpers of the layouts: safe_mult(a, b) yields a * b and accepts only when the field product
    equals the integer product; safe_div(a, b) is the floor quotient by a non-zero b"""
    import exprtree
    A1, A2 = ('arg', 1), ('arg', 2)
    PROD = ('mul', A1, A2)
    sm = db.fns.get('swiftness_air::layout::safe_mult')
    if sm is not None and sm.has_mir:
        T = exprtree.Trees(db, sm)
        muls = [tuple(T.operand(a) for a in t['args']) for _, t in sm.calls() if t['f'].get('name') == 'mul']
        cmps = [tuple(T.operand(a) for a in t['args']) for _, t in sm.calls() if t['f'].get('name') in ('cmp', 'eq', 'ne')]
        ok = bool(muls) and all(set(m) == {A1, A2} for m in muls) and len(cmps) == 1 and all(T.norm(x) == T.norm(PROD) for x in cmps[0])
        others = sorted({t['f'].get('name') for _, t in sm.calls()} - {'mul', 'cmp', 'eq', 'ne', 'to_bigint', 'clone', 'into', 'from'})
        rep.ob('C14.helpers', 'safe_mult', ok and not others,
               f'safe_mult: products {[tuple(exprtree.show(x) for x in m) for m in muls][:3]}, comparison {[tuple(exprtree.show(x) for x in c) for c in cmps][:1]}'
               f', other operations {others} (expected: a * b as field elements compared with a * b as integers)', sm.loc(), cfg)
    sd = db.fns.get('swiftness_air::layout::safe_div')
    if sd is not None and sd.has_mir:
        divs = []
        for body in common.bodies(db, sd):
            T = exprtree.Trees(db, body)
            ups = common.upvars(db, sd, body.path) if body is not sd else []

            def root(t):
                t = common.strip_ref(t)
                if body is not sd and isinstance(t, tuple) and t[0] == 'proj' and t[1] == A1 and str(t[2]).isdigit() and int(t[2]) < len(ups):
                    return common.strip_ref(ups[int(t[2])])
                if body is not sd and t == A2:
                    return ('item',)      # the element the closure is applied to (the non-zero divisor)
                return t
            for _, t in body.calls():
                if t['f'].get('name') in ('floor_div', 'field_div', 'div', 'div_rem', 'rem'):
                    divs.append((t['f'].get('name'), tuple(root(T.operand(a)) for a in t['args'])))
        ok = len(divs) == 1 and divs[0][0] == 'floor_div' and divs[0][1][0] == A1 and divs[0][1][1] in (A2, ('item',))
        rep.ob('C14.helpers', 'safe_div', ok, f'safe_div: {[(n, tuple(exprtree.show(x) for x in a)) for n, a in divs]} (expected floor_div(value, divisor))',
               sd.loc(), cfg)

# Cairo dynamic layout: units consumed per step / per builtin instance
UNIT_BUDGETS = {
    'memory_units_row_ratio': dict({'n_steps': 4}, **{k.lower(): v for k, v in CELLS.items()}),
    'range_check_units_row_ratio': {'n_steps': 3, 'range_check': 8, 'range_check96': 6, 'mul_mod': 66},
    'diluted_units_row_ratio': {'bitwise': 68, 'keccak': 16384},
}


def unit_budgets(db, rep, cfg):
    """dynamic layout: the three unit budgets are sums  c_steps * n_steps + sum_b c_b * <b>_copies (+ the public-memory
    share for memory units)  <=  trace_length / <kind>_units_row_ratio, with the coefficients of the Cairo specification
    (memory: cells per instance, 4 per step). Read off the def-use tree of the comparison: a sum of products only."""
    import exprtree
    lay = db.layouts()
    if 'dynamic' not in lay:
        return
    v = common.layout_method(db, lay['dynamic'], 'validate_public_input', 'C14.units')
    T = exprtree.Trees(db, v)

    def flat(t):
        if isinstance(t, tuple) and t[0] == 'add' and len(t) == 3:
            return flat(t[1]) + flat(t[2])
        return [t]
    found = {}

    def named(fn, t):
        # locals that are joins keep the name the source gives them
        if isinstance(t, tuple) and t and t[0] == 'phi':
            return ('named', (fn.local_name(t[1]) or f'_{t[1]}'))
        if isinstance(t, tuple):
            return tuple(named(fn, x) if isinstance(x, tuple) else ({k: named(fn, y) for k, y in x.items()} if isinstance(x, dict) else x)
                         for x in t)
        return t

    def subst(t, actuals):
        if isinstance(t, tuple) and t and t[0] == 'arg' and 1 <= t[1] <= len(actuals):
            return actuals[t[1] - 1]
        if isinstance(t, tuple) and t and t[0] == 'proj':
            b = subst(t[1], actuals)
            if isinstance(b, tuple) and b and b[0] == 'agg' and isinstance(t[2], str) and t[2] in b[3]:
                return b[3][t[2]]
            return ('proj', b, t[2])
        if isinstance(t, tuple):
            return tuple(subst(x, actuals) if isinstance(x, tuple) else x for x in t)
        return t
    # the comparisons may sit in validate_public_input or in a stage it calls (their operands are then read back
    # through the stage's arguments, struct fields included)
    sites = [(v, T, None)]
    for _, ct in v.calls():
        c = ct['f'].get('resolved') if ct['f'].get('is_resolved') else None
        if c in db.fns and db.fns[c].has_mir and c.startswith('swiftness_air::layout::dynamic') and not db.fns[c].compact:
            sites.append((db.fns[c], exprtree.Trees(db, db.fns[c]), [named(v, T.operand(a)) for a in ct.get('args', [])]))
    for hf, HT, actuals in sites:
      for bi, t in hf.calls():
        if t['f'].get('name') != 'le' or not t['f'].get('trait', '').startswith('core::cmp'):
            continue
        lhs, rhs = named(hf, HT.operand(t['args'][0])), named(hf, HT.operand(t['args'][1]))
        if actuals is not None:
            lhs, rhs = subst(lhs, actuals), subst(rhs, actuals)
        rhs = exprtree.show(rhs)
        terms = flat(lhs)
        kind = next((k for k in UNIT_BUDGETS if k in rhs), None)
        if kind is None or len(terms) < 2:
            continue
        coeffs, odd = {}, []
        for x in terms:
            if isinstance(x, tuple) and x[0] == 'mul' and len(x) == 3 and any(isinstance(y, tuple) and y[0] == 'val' for y in x[1:]):
                c = next(y[1] for y in x[1:] if isinstance(y, tuple) and y[0] == 'val')
                o = next(y for y in x[1:] if not (isinstance(y, tuple) and y[0] == 'val'))
                if isinstance(o, tuple) and o[0] == 'named':
                    nm = o[1].replace('_copies', '')
                elif exprtree.show(o) == 'pow_felt(2, a1.log_n_steps)':
                    nm = 'n_steps'
                else:
                    nm = exprtree.show(o)[:30]
                coeffs[nm] = coeffs.get(nm, 0) + c
            elif isinstance(x, tuple) and isinstance(x[0], str) and x[0].endswith('safe_div') and kind == 'memory_units_row_ratio':
                coeffs['public-memory-share'] = 1
            else:
                odd.append(exprtree.show(x)[:40])
        found[kind] = (coeffs, odd, t['line'])
    for kind, want in UNIT_BUDGETS.items():
        w = dict(want)
        if kind == 'memory_units_row_ratio':
            w['public-memory-share'] = 1
        got = found.get(kind)
        ok = got is not None and got[0] == w and not got[1]
        rep.ob('C14.units', kind, ok,
               f'dynamic {kind.replace("_row_ratio", "")} budget: ' + ('sum of products with the specified coefficients' if ok else
               (f'coefficients {got[0]}, other terms {got[1]}; specified {w}' if got else 'comparison not found')),
               v.loc(got[2]) if got else v.loc(), cfg)
