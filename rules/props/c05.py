"""C05 — table decommitment binds every cell of every queried row (structural part)."""
import common
import dataflow
import exprtree
import hashsites
import literals
import obligations
from common import *
from facts import op_place
from literals import P

EXPLANATION = (
    'Hash binding itself is not decided. Decided: (a) the length guard n_columns * queries.len() == values.len() on every '
    'accepting path of table_decommit; (b) Montgomery form: the values handed to generate_vector_queries are exactly '
    'decommitment.values mapped through v * MONTGOMERY_R (def-use tree of the closure and of the call argument), and the '
    'MONTGOMERY_R literal equals 2^256 mod p; (c) row selection in generate_vector_queries: one Query per input query with '
    'index = queries[i]; single-column rows use values[i] unhashed; otherwise the hashed slice is '
    'values[i*n_columns .. (i+1)*n_columns]; the friendly row hash is poseidon_hash_many(slice) and the masked one hashes '
    'the big-endian bytes of the slice cells in order with the configured hasher / digest sub-range (all four hash '
    'configurations); the friendly-vs-masked flag is n_verifier_friendly_commitment_layers >= height + 1; (d) the verdict of '
    'vector_commitment_decommit is the verdict of table_decommit (checked delegation on every accepting path).')
NOT_DECIDED = ['collision resistance of the row hash', 'that moving cells between rows changes a hash (follows from (c) only given binding hashes)']
TRUSTED = ['rustc nightly MIR', 'sha3 / blake2 / starknet-crypto', 'Python integers for the Montgomery constant']

THOROUGH_MAIN_CONFIGS = ['b248s6', 'nostd']


def run(ctx, rep):
    db = ctx.main
    cfg = db.config
    td = db.fn(TABLE_DECOMMIT, 'C05')
    gs = dataflow.effective_guards(db, TABLE_DECOMMIT)
    g1 = common.table_length_guard(db)
    rep.ob('C05.length', 'cells=columns*queries', bool(g1), 'table_decommit must reject unless n_columns * queries.len() == values.len()', td.loc(), cfg, sample=True)
    obligations.check_chain(db, rep, 'C05.delegate', 'table->vector', [TABLE_DECOMMIT, VECTOR_DECOMMIT], None, None, cfg)
    # (b) Montgomery
    r = literals.const_value(db, 'swiftness_commitment::table::decommit::MONTGOMERY_R')
    rep.ob('C05.montgomery', 'literal', r == pow(2, 256, P), f'MONTGOMERY_R = {hex(r) if r is not None else None}; 2^256 mod p = {hex(pow(2, 256, P))}', td.loc(), cfg)
    T = exprtree.Trees(db, td)
    okc = False
    shown = ''
    for cp in db.closure_creations(td):
        cf = db.fns[cp]
        Tc = exprtree.Trees(db, cf)
        t = Tc.local(0)
        shown = exprtree.show(t)
        okc = isinstance(t, tuple) and t[0] == 'mul' and ('val', r) in t[1:] and ('arg', 2) in t[1:]
    rep.ob('C05.montgomery', 'closure', okc, f'per-cell conversion closure returns {shown[:100]} (expected cell * MONTGOMERY_R)', td.loc(), cfg)
    oka = False
    for bi, t in td.calls():
        if t['f'].get('resolved') == GEN_VECTOR_QUERIES:
            a = [exprtree.show(T.operand(x)) for x in t['args']]
            oka = a[0] == 'a2' and 'a3.values' in a[1] and 'map(' in a[1] and 'closure' in a[1] and a[2].startswith('a1.config.n_columns') is False
            oka = a[0] == 'a2' and 'a3.values' in a[1] and 'map(' in a[1] and 'closure' in a[1]
            flag = a[3]
            okf = all(ok for k_, ok, _, _ in common.friendly_selection(db) if k_ == 'table-flag')
            rep.ob('C05.rows', 'friendly-flag', okf, f'is_bottom_layer_verifier_friendly = {flag[:160]}', td.loc(t['line']), cfg)
            rep.ob('C05.montgomery', 'argument', oka, f'generate_vector_queries(queries={a[0]}, values={a[1][:110]}, ..)', td.loc(t['line']), cfg)
    # (c) row selection
    gv = db.fn(GEN_VECTOR_QUERIES, 'C05')
    rows(db, rep, gv, cfg)
    hashsites.check_site(ctx, rep, 'C05.hash', GEN_VECTOR_QUERIES, 'row hash')


def _eq_tests(fn, T):
    for b in fn.blocks:
        for st in b['stmts']:
            if st['k'] == 'assign' and st['rv']['k'] == 'bin' and st['rv']['op'] == 'Eq':
                yield T.operand(st['rv']['a']), T.operand(st['rv']['b'])


def rows(db, rep, gv, cfg):
    """generate_vector_queries(queries=a1, values=a2, n_columns=a3, friendly=a4): Query i = (queries[i], H(row i)) with
    row i = values[i*n_columns .. (i+1)*n_columns]. Two ways of writing the row walk are recognised:
      index form : the Query is built in the function body, index = queries[..], rows are values[mul(..a3..) .. mul(add(..)..a3..)]
      chunk form : the Query is built in the closure mapped over zip(iter(queries), values.chunks_exact(n_columns)) (or
                   .chunks), index = the first component of the closure's item and the row is its second component
    Anything else cannot be decided by this rule and is reported (fail closed)."""
    bs = common.bodies(db, gv)
    Ts = {f.path: exprtree.Trees(db, f) for f in bs}
    Tg = Ts[gv.path]
    qsite = None
    for f in bs:
        for b in f.blocks:
            for st in b['stmts']:
                if st['k'] == 'assign' and st['rv'].get('k') == 'agg' and st['rv'].get('adt', '').endswith('types::Query'):
                    qsite = (f, st['rv'])
    if qsite is None:
        rep.ob('C05.rows', 'query-index', False, 'no Query is constructed in generate_vector_queries or its closures', gv.loc(), cfg)
        return
    qf, qa = qsite
    Tq = Ts[qf.path]
    flq = dataflow.Flow(db, qf)
    idx_t = Tq.operand(qa['ops'][qa['fields'].index('index')])
    idx = exprtree.show(idx_t)
    vl = flq.operand_leaves(qa['ops'][qa['fields'].index('value')])
    # index ranges taken of `values` in the function body
    sl = []
    for bi, t in gv.calls():
        if t['f'].get('name') == 'index' and len(t['args']) == 2:
            r_ = Tg.operand(t['args'][1])
            if isinstance(r_, tuple) and r_[0] == 'agg' and r_[1].startswith('core::ops::range::Range'):
                if exprtree.show(Tg.operand(t['args'][0])) == 'a2':
                    sl.append((exprtree.show(r_[3]['start']), exprtree.show(r_[3]['end'])))
    if qf is gv:
        form = 'index'
        okq = idx.startswith('a1[')
        good = [x for x in sl if x[0].startswith('mul(') and 'a3' in x[0] and x[1].startswith('mul(') and 'add(' in x[1] and 'a3' in x[1]]
        oks = len(good) >= 2 and len(good) == len(sl)
        row_desc = f'hashed slices of values: {sl}'
        row_leaf = lambda x: x.startswith('a2[*]')
        is_row = lambda t: isinstance(t, tuple) and t[0] == 'proj' and t[1] == ('arg', 2)
        ncols = lambda t: t == ('arg', 3)
    else:
        form = 'chunk'
        walk = None
        for bi, t in gv.calls():
            if t['f'].get('name') == 'map' and len(t['args']) == 2:
                recv, cl = Tg.operand(t['args'][0]), Tg.operand(t['args'][1])
                if isinstance(cl, tuple) and cl[0] == 'closure' and cl[1] == qf.path:
                    walk = recv
        okw = isinstance(walk, tuple) and walk[0] == 'zip' and len(walk) == 3 and \
            walk[1] in (('iter', ('arg', 1)), ('arg', 1)) and isinstance(walk[2], tuple) and \
            walk[2][0] in ('chunks_exact', 'chunks') and walk[2][1:] == (('arg', 2), ('arg', 3))
        okq = okw and idx_t == ('proj', ('arg', 2), '0')
        oks = okw and not sl
        row_desc = f'rows walked as {exprtree.show(walk)[:120]}; other slices of values: {sl}'
        row_leaf = lambda x: x.startswith('a2.1')
        is_row = lambda t: t == ('proj', ('arg', 2), '1')
        ups = common.upvars(db, gv, qf.path)
        ncols = lambda t: isinstance(t, tuple) and t[0] == 'proj' and t[1] == ('arg', 1) and str(t[2]).isdigit() and \
            int(t[2]) < len(ups) and ups[int(t[2])] == ('arg', 3)
    rep.note('row_walk_form', form)
    rep.ob('C05.rows', 'query-index', okq, f'Query.index = {idx} ({form} form)', qf.loc(), cfg)
    rep.ob('C05.rows', 'query-value-sources', any(row_leaf(x) for x in vl) and any(x.startswith('call:starknet_crypto::poseidon_hash') for x in vl)
           and any('Digest' in x or 'finalize' in x for x in vl), f'Query.value leaves: {sorted(x for x in vl if not x.startswith("op:"))[:6]}', qf.loc(), cfg)
    # single-column bypass: a comparison of n_columns with 1 selects the bare cell
    okb = any((ncols(a) and c == ('val', 1)) or (ncols(c) and a == ('val', 1)) for a, c in _eq_tests(qf, Tq))
    rep.ob('C05.rows', 'single-column-bypass', okb, 'rows of single-column tables are used unhashed (n_columns == 1 test)', qf.loc(), cfg)
    rep.ob('C05.rows', 'row-slices', oks, row_desc, gv.loc(), cfg)
    pm = [(f, t) for f in bs for _, t in f.calls() if (t['f'].get('resolved') or '').endswith('poseidon_hash_many')]
    okp = len(pm) == 1 and pm[0][0] is qf and is_row(Tq.operand(pm[0][1]['args'][0]))
    rep.ob('C05.rows', 'friendly-row-hash', okp, f'{len(pm)} poseidon_hash_many call(s); argument ' +
           (exprtree.show(Ts[pm[0][0].path].operand(pm[0][1]['args'][0]))[:80] if pm else '-'), gv.loc(), cfg)
    # masked: a closure inside the body turns every cell into its big-endian bytes, in order
    okm = False
    fm = ''
    for _, t in qf.calls():
        if t['f'].get('name') in ('flat_map', 'map') and len(t['args']) == 2:
            recv, cl = Tq.operand(t['args'][0]), Tq.operand(t['args'][1])
            if isinstance(cl, tuple) and cl[0] == 'closure' and cl[1] in db.fns:
                cf = db.fns[cl[1]]
                Tc = exprtree.Trees(db, cf)
                be = [Tc.operand(t2['args'][0]) for _, t2 in cf.calls() if t2['f'].get('name') == 'to_bytes_be' and t2.get('args')]
                if be and all(x == ('arg', 2) for x in be):
                    src = recv[1] if isinstance(recv, tuple) and recv[0] in ('iter', 'into_iter') and len(recv) == 2 else recv
                    fm = exprtree.show(recv)[:60]
                    okm = okm or is_row(src)
    bad = [t['f'].get('name') for f in bs for _, t in f.calls() if t['f'].get('name') in ('to_bytes_le', 'reverse', 'rev', 'sort', 'to_le_bytes')]
    rep.ob('C05.rows', 'masked-preimage', okm and not bad, f'masked row hash consumes to_bytes_be of every cell of the row in order (cells from {fm or "?"}; reordering calls: {bad})', gv.loc(), cfg)
