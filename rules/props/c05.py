"""C05 — table decommitment binds every cell of every queried row (structural part)."""
import common
import dataflow
import exprtree
import hashsites
import literals
import obligations
from common import *
from facts import op_place
from literals import P

EXPLANATION = (
    'Hash binding itself is not decided. Decided: (a) the length guard n_columns * queries.len() == values.len() on every '
    'accepting path of table_decommit; (b) Montgomery form: the values handed to generate_vector_queries are exactly '
    'decommitment.values mapped through v * MONTGOMERY_R (def-use tree of the closure and of the call argument), and the '
    'MONTGOMERY_R literal equals 2^256 mod p; (c) row selection in generate_vector_queries: one Query per input query with '
    'index = queries[i]; single-column rows use values[i] unhashed; otherwise the hashed slice is '
    'values[i*n_columns .. (i+1)*n_columns]; the friendly row hash is poseidon_hash_many(slice) and the masked one hashes '
    'the big-endian bytes of the slice cells in order with the configured hasher / digest sub-range (all four hash '
    'configurations); the friendly-vs-masked flag is n_verifier_friendly_commitment_layers >= height + 1; (d) the verdict of '
    'vector_commitment_decommit is the verdict of table_decommit (checked delegation on every accepting path).')
NOT_DECIDED = ['collision resistance of the row hash', 'that moving cells between rows changes a hash (follows from (c) only given binding hashes)']
TRUSTED = ['rustc nightly MIR', 'sha3 / blake2 / starknet-crypto', 'Python integers for the Montgomery constant']

THOROUGH_MAIN_CONFIGS = ['b248s6', 'nostd']


def run(ctx, rep):
    db = ctx.main
    cfg = db.config
    td = db.fn(TABLE_DECOMMIT, 'C05')
    gs = dataflow.effective_guards(db, TABLE_DECOMMIT)
    g1 = common.table_length_guard(db)
    rep.ob('C05.length', 'cells=columns*queries', bool(g1), 'table_decommit must reject unless n_columns * queries.len() == values.len()', td.loc(), cfg, sample=True)
    obligations.check_chain(db, rep, 'C05.delegate', 'table->vector', [TABLE_DECOMMIT, VECTOR_DECOMMIT], None, None, cfg)
    # (b) Montgomery
    r = literals.const_value(db, 'swiftness_commitment::table::decommit::MONTGOMERY_R')
    rep.ob('C05.montgomery', 'literal', r == pow(2, 256, P), f'MONTGOMERY_R = {hex(r) if r is not None else None}; 2^256 mod p = {hex(pow(2, 256, P))}', td.loc(), cfg)
    # the cells handed to the row hashing are the decommitted values, each multiplied by MONTGOMERY_R exactly once. The
    # per-cell conversion `collect(map(iter(values), |v| v * R))` may sit in table_decommit (the converted vector is the
    # argument) or at the top of generate_vector_queries (the raw values are the argument and every read below goes
    # through the converted vector).
    T = exprtree.Trees(db, td)
    gv = db.fn(GEN_VECTOR_QUERIES, 'C05')

    def conversion(tr, src_ok):
        """is `tr` = collect(map(iter(SRC), closure)) with closure = cell * MONTGOMERY_R (either order)? returns SRC"""
        if not (isinstance(tr, tuple) and tr and tr[0] == 'collect' and len(tr) == 2):
            return None
        m = tr[1]
        if not (isinstance(m, tuple) and m[0] == 'map' and len(m) == 3 and isinstance(m[2], tuple) and m[2][0] == 'closure'):
            return None
        cf = db.fns.get(m[2][1])
        if cf is None:
            return None
        body = exprtree.Trees(db, cf).local(0)
        if not (isinstance(body, tuple) and body[0] == 'mul' and ('val', r) in body[1:] and ('arg', 2) in body[1:]):
            return None
        src = m[1]
        while isinstance(src, tuple) and src[0] in ('iter', 'into_iter') and len(src) == 2:
            src = src[1]
        return src if src_ok(src) else None
    where = []
    call = None
    for bi, t in td.calls():
        if t['f'].get('resolved') == GEN_VECTOR_QUERIES:
            call = t
    a = [T.operand(x) for x in call['args']] if call else []
    if call is None or len(a) < 4:
        rep.ob('C05.rows', 'signature', False, f'generate_vector_queries is called with {len(a)} arguments; the rule maps (queries, values, n_columns, is_verifier_friendly)', td.loc(), cfg)
        return
    shown_a = [exprtree.show(x) for x in a]
    is_raw = lambda x: exprtree.show(x) == 'a3.values'
    in_caller = conversion(a[1], is_raw) is not None
    raw_arg = is_raw(a[1])
    if in_caller:
        where.append('table_decommit')
    # conversions at the top of generate_vector_queries
    Tg0 = exprtree.Trees(db, gv)
    conv_local = None
    for bi, t in gv.calls():
        if t['f'].get('name') == 'collect' and not t['dest']['p']:
            if conversion(Tg0.local(t['dest']['l']), lambda x: x == ('arg', 2)) is not None:
                conv_local = Tg0.local(t['dest']['l'])
                where.append('generate_vector_queries')
    okc = len(where) == 1 and (in_caller or raw_arg)
    rep.ob('C05.montgomery', 'once', okc,
           f'the decommitted values are converted (cell * MONTGOMERY_R) in {where or "no place"}; generate_vector_queries receives '
           f'{shown_a[1][:90]} (expected: exactly one conversion of a3.values)', td.loc(call['line']), cfg)
    rep.ob('C05.montgomery', 'argument', shown_a[0] == 'a2', f'generate_vector_queries(queries={shown_a[0]}, ..)', td.loc(call['line']), cfg)
    okf = all(ok for k_, ok, _, _ in common.friendly_selection(db) if k_ == 'table-flag')
    rep.ob('C05.rows', 'friendly-flag', okf, f'is_bottom_layer_verifier_friendly = {shown_a[3][:160]}', td.loc(call['line']), cfg)
    # (c) row selection
    gv = db.fn(GEN_VECTOR_QUERIES, 'C05')
    tys = [gv.local_ty(k) for k in range(1, gv.arg_count + 1)]
    sig_ok = gv.arg_count == 4 and tys[0].startswith('&') and 'Felt' in tys[0] and 'Felt' in tys[1] and \
        (tys[1].startswith('&') or tys[1].startswith('alloc::vec::Vec<')) and tys[2] in ('u32', 'usize', 'u64') and tys[3] == 'bool'
    if not sig_ok:
        rep.ob('C05.rows', 'signature', False, f'generate_vector_queries{tuple(tys)}: the rule maps (queries: &[Felt], values: &[Felt], '
               'n_columns: integer, is_verifier_friendly: bool); with another signature the row walk cannot be decided', gv.loc(), cfg)
    else:
        rows(db, rep, gv, cfg, conv_local)
    hashsites.check_site(ctx, rep, 'C05.hash', GEN_VECTOR_QUERIES, 'row hash')


def _eq_tests(fn, T):
    for b in fn.blocks:
        for st in b['stmts']:
            if st['k'] == 'assign' and st['rv']['k'] == 'bin' and st['rv']['op'] == 'Eq':
                yield T.operand(st['rv']['a']), T.operand(st['rv']['b'])


I = ('I',)            # the symbolic row index
CHUNK = ('CHUNK',)    # the symbolic i-th chunk of values.chunks(_exact)(n_columns)


def _rewrite(t, f):
    """bottom-up rewrite of a def-use tree"""
    if isinstance(t, tuple):
        t = tuple(_rewrite(x, f) if k else x for k, x in enumerate(t))
        return f(t) if t else t
    if isinstance(t, dict):
        return {k: _rewrite(v, f) for k, v in t.items()}
    return t


def _is_range0(t, end_ok):
    return isinstance(t, tuple) and t[0] == 'agg' and t[1].startswith('core::ops::range::Range') and \
        t[3].get('start') == ('val', 0) and end_ok(t[3].get('end'))


def rows(db, rep, gv, cfg, converted=None):
    """generate_vector_queries(queries=a1, values=a2, n_columns=a3, friendly=a4): Query i = (queries[i], H(row i)) with
    row i = values[i*n_columns .. (i+1)*n_columns]. The body that builds the Query (the function itself or the closure
    it maps over the queries) is rewritten into the function's own terms with a symbolic row index I:
      for i in 0..queries.len()                      : i -> I
      queries.iter().enumerate().map(|(i, q)| ..)    : i -> I, q -> queries[I]
      queries.iter().zip(values.chunks_exact(n)).map(|(q, row)| ..) : q -> queries[I], row -> CHUNK (= row I by the
                                                       definition of chunks_exact, given the C05.length guard)
    captured variables are replaced by what the function captured. In those terms the rule requires index = queries[I];
    the row is values[I*n .. (I+1)*n] or CHUNK; a test n == 1 selects the bare cell values[I] / CHUNK[0]; the friendly
    hash is poseidon_hash_many(row); the masked hash consumes to_bytes_be of iter(row). Any other walk is reported."""
    bs = common.bodies(db, gv)
    Ts = {f.path: exprtree.Trees(db, f) for f in bs}
    Tg = Ts[gv.path]
    qsite = None
    for f in bs:
        for b in f.blocks:
            for st in b['stmts']:
                if st['k'] == 'assign' and st['rv'].get('k') == 'agg' and st['rv'].get('adt', '').endswith('types::Query'):
                    qsite = (f, st['rv'])
    if qsite is None:
        rep.ob('C05.rows', 'query-index', False, 'no Query is constructed in generate_vector_queries or its closures', gv.loc(), cfg)
        return
    qf, qa = qsite
    Tq = Ts[qf.path]
    flq = dataflow.Flow(db, qf)
    A1, A3 = ('arg', 1), ('arg', 3)
    # the vector the rows are read from: the `values` parameter, or -- when generate_vector_queries converts the cells
    # itself -- the converted vector (a read of the raw parameter is then not a read of a row)
    A2 = ('VALUES',) if converted is not None else ('arg', 2)
    QI = ('proj', A1, ('idx', I))

    def strip_checked(t):
        # (a op b).0 of overflow-checked arithmetic, and the Range end len(a1)
        if len(t) == 3 and t[0] == 'proj' and t[2] == '0' and isinstance(t[1], tuple) and t[1] and t[1][0] in ('add', 'mul', 'sub'):
            return t[1]
        return t
    form = None
    walk_desc = ''
    if qf is gv:
        form = 'loop'

        def to_root(t):
            t = strip_checked(t)
            if t[0] == 'next' and len(t) == 2 and isinstance(t[1], tuple) and t[1][0] == 'into_iter' and \
                    _is_range0(t[1][1], lambda e: e == ('len', A1)):
                return I
            return t
        walk_desc = 'for i in 0..queries.len()'
    else:
        walk = None
        for bi, t in gv.calls():
            if t['f'].get('name') == 'map' and len(t['args']) == 2:
                recv, cl = Tg.operand(t['args'][0]), Tg.operand(t['args'][1])
                if isinstance(cl, tuple) and cl[0] == 'closure' and cl[1] == qf.path:
                    walk = recv
        ups = common.upvars(db, gv, qf.path)
        item = {}
        if isinstance(walk, tuple) and walk[0] == 'zip' and len(walk) == 3 and walk[1] in (('iter', A1), A1) and \
                isinstance(walk[2], tuple) and walk[2][0] in ('chunks_exact', 'chunks') and walk[2][1] == A2 and \
                _rewrite(walk[2][2], strip_checked) == A3:
            form = 'zip-chunks'
            item = {'0': QI, '1': CHUNK}
        elif isinstance(walk, tuple) and walk[0] == 'enumerate' and walk[1] in (('iter', A1), A1):
            form = 'enumerate'
            item = {'0': I, '1': QI}
        walk_desc = exprtree.show(walk)[:100]

        def to_root(t):
            t = strip_checked(t)
            if t[0] == 'proj' and t[1] == A2 and isinstance(t[2], str) and t[2] in item:
                return item[t[2]]
            if t[0] == 'proj' and t[1] == A1 and isinstance(t[2], str) and t[2].isdigit() and int(t[2]) < len(ups):
                return _rewrite(ups[int(t[2])], strip_checked)
            return t
    def to_root2(t):
        t = to_root(t)
        return ('VALUES',) if converted is not None and t == converted else t
    rep.note('row_walk_form', form)
    if form is None:
        rep.ob('C05.rows', 'row-walk', False, f'the Query is built in {qf.path.split("::")[-1]} mapped over {walk_desc}: not a recognised walk over '
               'the queries (loop over 0..len, enumerate, or zip with chunks of n_columns)', qf.loc(), cfg)
        return
    rep.ob('C05.rows', 'row-walk', True, f'{form}: {walk_desc}', qf.loc(), cfg)
    R = lambda op: _rewrite(Tq.operand(op), to_root2)

    def is_row(t):
        if t == CHUNK:
            return True
        if not (isinstance(t, tuple) and t[0] == 'proj' and t[1] == A2 and isinstance(t[2], tuple) and t[2][0] == 'idx'):
            return False
        r = t[2][1]
        if not (isinstance(r, tuple) and r[0] == 'agg' and r[1] == 'core::ops::range::Range'):
            return False
        s_, e_ = r[3].get('start'), r[3].get('end')
        return isinstance(s_, tuple) and s_[0] == 'mul' and set(s_[1:]) == {I, A3} and isinstance(e_, tuple) and e_[0] == 'mul' and \
            A3 in e_[1:] and any(isinstance(x, tuple) and x[0] == 'add' and set(x[1:]) == {I, ('val', 1)} for x in e_[1:])

    def is_cell(t):   # the only cell of a single-column row
        return t == ('proj', A2, ('idx', I)) or t == ('proj', CHUNK, ('idx', ('val', 0)))
    idx_t = R(qa['ops'][qa['fields'].index('index')])
    rep.ob('C05.rows', 'query-index', idx_t == QI, f'Query.index = {exprtree.show(idx_t)[:80]} (expected queries[I])', qf.loc(), cfg)
    vl = flq.operand_leaves(qa['ops'][qa['fields'].index('value')])
    rep.ob('C05.rows', 'query-value-sources', any(x.startswith('call:starknet_crypto::poseidon_hash') for x in vl)
           and any('Digest' in x or 'finalize' in x for x in vl), f'Query.value leaves: {sorted(x for x in vl if not x.startswith("op:"))[:6]}', qf.loc(), cfg)
    # every slice / index of `values` in the body is the row or the single cell
    sl = []
    for bi, t in qf.calls():
        if t['f'].get('name') == 'index' and len(t['args']) == 2:
            whole = _rewrite(('proj', Tq.operand(t['args'][0]), ('idx', Tq.operand(t['args'][1]))), to_root2)
            if whole[1] in (A2, CHUNK):
                sl.append(whole)
    for b in qf.blocks:       # values[i] as a place projection (no Index call for arrays/slices by usize)
        for st in b['stmts']:
            if st['k'] == 'assign' and st['rv']['k'] in ('use', 'ref'):
                pl = st['rv'].get('place') or op_place(st['rv'].get('a') or {})
                if pl and any(isinstance(e, dict) and 'i' in e for e in pl['p']):
                    whole = _rewrite(Tq.place(pl), to_root2)
                    if isinstance(whole, tuple) and whole[0] == 'proj' and whole[1] in (A2, CHUNK):
                        sl.append(whole)
    bad_sl = [exprtree.show(x)[:90] for x in sl if not (is_row(x) or is_cell(x))]
    have_row = form == 'zip-chunks' or any(is_row(x) for x in sl)
    rep.ob('C05.rows', 'row-slices', have_row and not bad_sl,
           f'{len(sl)} reads of values, all of them row I (values[I*n .. (I+1)*n] or the I-th chunk) or its single cell' if have_row and not bad_sl else
           f'reads of values that are not row I: {bad_sl[:3]} (row read found: {have_row})', qf.loc(), cfg)
    # single-column bypass: a comparison of n_columns with 1 selects the bare cell
    okb = any({_rewrite(a, to_root2), _rewrite(c, to_root2)} == {A3, ('val', 1)} for a, c in _eq_tests(qf, Tq))
    rep.ob('C05.rows', 'single-column-bypass', okb, 'rows of single-column tables are used unhashed (n_columns == 1 test)', qf.loc(), cfg)
    pm = [(f, t) for f in bs for _, t in f.calls() if (t['f'].get('resolved') or '').endswith('poseidon_hash_many')]
    arg = R(pm[0][1]['args'][0]) if len(pm) == 1 and pm[0][0] is qf else None
    rep.ob('C05.rows', 'friendly-row-hash', arg is not None and is_row(arg), f'{len(pm)} poseidon_hash_many call(s); argument ' +
           (exprtree.show(arg)[:80] if arg is not None else '-'), gv.loc(), cfg)
    # masked: a closure inside the body turns every cell of the row into its big-endian bytes, in order
    okm = False
    fm = ''
    for _, t in qf.calls():
        if t['f'].get('name') in ('flat_map', 'map') and len(t['args']) == 2:
            recv, cl = R(t['args'][0]), Tq.operand(t['args'][1])
            if isinstance(cl, tuple) and cl[0] == 'closure' and cl[1] in db.fns:
                cf = db.fns[cl[1]]
                Tc = exprtree.Trees(db, cf)
                be = [Tc.operand(t2['args'][0]) for _, t2 in cf.calls() if t2['f'].get('name') == 'to_bytes_be' and t2.get('args')]
                if be and all(x == ('arg', 2) for x in be):
                    src = recv[1] if isinstance(recv, tuple) and recv[0] in ('iter', 'into_iter') and len(recv) == 2 else recv
                    fm = exprtree.show(recv)[:60]
                    okm = okm or is_row(src)
    bad = [t['f'].get('name') for f in bs for _, t in f.calls() if t['f'].get('name') in ('to_bytes_le', 'reverse', 'rev', 'sort', 'to_le_bytes')]
    rep.ob('C05.rows', 'masked-preimage', okm and not bad, f'masked row hash consumes to_bytes_be of every cell of the row in order (cells from {fm or "?"}; reordering calls: {bad})', gv.loc(), cfg)
