"""C05 — table decommitment binds every cell of every queried row (structural part)."""
import common
import dataflow
import exprtree
import hashsites
import literals
import obligations
from common import *
from facts import op_place
from literals import P

EXPLANATION = (
    'Hash binding itself is not decided. Decided: (a) the length guard n_columns * queries.len() == values.len() on every '
    'accepting path of table_decommit; (b) Montgomery form: the values handed to generate_vector_queries are exactly '
    'decommitment.values mapped through v * MONTGOMERY_R (def-use tree of the closure and of the call argument), and the '
    'MONTGOMERY_R literal equals 2^256 mod p; (c) row selection in generate_vector_queries: one Query per input query with '
    'index = queries[i]; single-column rows use values[i] unhashed; otherwise the hashed slice is '
    'values[i*n_columns .. (i+1)*n_columns]; the friendly row hash is poseidon_hash_many(slice) and the masked one hashes '
    'the big-endian bytes of the slice cells in order with the configured hasher / digest sub-range (all four hash '
    'configurations); the friendly-vs-masked flag is n_verifier_friendly_commitment_layers >= height + 1; (d) the verdict of '
    'vector_commitment_decommit is the verdict of table_decommit (checked delegation on every accepting path).')
NOT_DECIDED = ['collision resistance of the row hash', 'that moving cells between rows changes a hash (follows from (c) only given binding hashes)']
TRUSTED = ['rustc nightly MIR', 'sha3 / blake2 / starknet-crypto', 'Python integers for the Montgomery constant']

THOROUGH_MAIN_CONFIGS = ['b248s6', 'nostd']


def run(ctx, rep):
    db = ctx.main
    cfg = db.config
    td = db.fn(TABLE_DECOMMIT, 'C05')
    gs = dataflow.effective_guards(db, TABLE_DECOMMIT)
    g1 = common.table_length_guard(db)
    rep.ob('C05.length', 'cells=columns*queries', bool(g1), 'table_decommit must reject unless n_columns * queries.len() == values.len()', td.loc(), cfg, sample=True)
    obligations.check_chain(db, rep, 'C05.delegate', 'table->vector', [TABLE_DECOMMIT, VECTOR_DECOMMIT], None, None, cfg)
    # (b) Montgomery
    r = literals.const_value(db, 'swiftness_commitment::table::decommit::MONTGOMERY_R')
    rep.ob('C05.montgomery', 'literal', r == pow(2, 256, P), f'MONTGOMERY_R = {hex(r) if r is not None else None}; 2^256 mod p = {hex(pow(2, 256, P))}', td.loc(), cfg)
    T = exprtree.Trees(db, td)
    okc = False
    shown = ''
    for cp in db.closure_creations(td):
        cf = db.fns[cp]
        Tc = exprtree.Trees(db, cf)
        t = Tc.local(0)
        shown = exprtree.show(t)
        okc = isinstance(t, tuple) and t[0] == 'mul' and ('val', r) in t[1:] and ('arg', 2) in t[1:]
    rep.ob('C05.montgomery', 'closure', okc, f'per-cell conversion closure returns {shown[:100]} (expected cell * MONTGOMERY_R)', td.loc(), cfg)
    oka = False
    for bi, t in td.calls():
        if t['f'].get('resolved') == GEN_VECTOR_QUERIES:
            a = [exprtree.show(T.operand(x)) for x in t['args']]
            oka = a[0] == 'a2' and 'a3.values' in a[1] and 'map(' in a[1] and 'closure' in a[1] and a[2].startswith('a1.config.n_columns') is False
            oka = a[0] == 'a2' and 'a3.values' in a[1] and 'map(' in a[1] and 'closure' in a[1]
            flag = a[3]
            okf = flag.startswith('ge(') and 'n_verifier_friendly_commitment_layers' in flag and 'add(' in flag and 'height' in flag and '1' in flag
            rep.ob('C05.rows', 'friendly-flag', okf, f'is_bottom_layer_verifier_friendly = {flag[:160]}', td.loc(t['line']), cfg)
            rep.ob('C05.montgomery', 'argument', oka, f'generate_vector_queries(queries={a[0]}, values={a[1][:110]}, ..)', td.loc(t['line']), cfg)
    # (c) row selection
    gv = db.fn(GEN_VECTOR_QUERIES, 'C05')
    Tg = exprtree.Trees(db, gv)
    fl = dataflow.Flow(db, gv)
    # Query construction
    qa = None
    for b in gv.blocks:
        for s in b['stmts']:
            if s['k'] == 'assign' and s['rv'].get('k') == 'agg' and s['rv'].get('adt', '').endswith('types::Query'):
                qa = s['rv']
    okq = False
    if qa:
        idx = exprtree.show(Tg.operand(qa['ops'][qa['fields'].index('index')]))
        okq = idx.startswith('a1[')
        rep.ob('C05.rows', 'query-index', okq, f'Query.index = {idx}', gv.loc(), cfg)
        vl = fl.operand_leaves(qa['ops'][qa['fields'].index('value')])
        rep.ob('C05.rows', 'query-value-sources', any(x.startswith('a2[*]') for x in vl) and any(x.startswith('call:starknet_crypto::poseidon_hash') for x in vl)
               and any('Digest' in x or 'finalize' in x for x in vl), f'Query.value leaves: {sorted(x for x in vl if not x.startswith("op:"))[:6]}', gv.loc(), cfg)
    # single-column bypass: a comparison of n_columns with 1 selects values[i]
    okb = False
    for b in gv.blocks:
        t = b['term']
        for s in b['stmts']:
            if s['k'] == 'assign' and s['rv']['k'] == 'bin' and s['rv']['op'] == 'Eq':
                a, c = Tg.operand(s['rv']['a']), Tg.operand(s['rv']['b'])
                if {a, c} == {('arg', 3), ('val', 1)}:
                    okb = True
    rep.ob('C05.rows', 'single-column-bypass', okb, 'rows of single-column tables are used unhashed (n_columns == 1 test)', gv.loc(), cfg)
    # slices
    sl = []
    for bi, t in gv.calls():
        if t['f'].get('name') == 'index' and len(t['args']) == 2:
            r_ = Tg.operand(t['args'][1])
            if isinstance(r_, tuple) and r_[0] == 'agg' and r_[1].startswith('core::ops::range::Range'):
                s_, e_ = exprtree.show(r_[3]['start']), exprtree.show(r_[3]['end'])
                base = exprtree.show(Tg.operand(t['args'][0]))
                if base == 'a2':
                    sl.append((s_, e_))
    good = [x for x in sl if x[0].startswith('mul(') and 'a3' in x[0] and x[1].startswith('mul(') and 'add(' in x[1] and 'a3' in x[1]]
    rep.ob('C05.rows', 'row-slices', len(good) >= 2 and len(good) == len(sl), f'hashed slices of values: {sl}', gv.loc(), cfg)
    pm = [t for _, t in gv.calls() if (t['f'].get('resolved') or '').endswith('poseidon_hash_many')]
    rep.ob('C05.rows', 'friendly-row-hash', len(pm) == 1, f'{len(pm)} poseidon_hash_many call(s)', gv.loc(), cfg)
    # masked: closure flat_map to_bytes_be
    okm = False
    for cp in db.closure_creations(gv):
        cf = db.fns[cp]
        okm = okm or any(t['f'].get('name') == 'to_bytes_be' for _, t in cf.calls())
    bad = [t['f'].get('name') for _, t in gv.calls() if t['f'].get('name') in ('to_bytes_le', 'reverse', 'rev', 'sort', 'to_le_bytes')]
    rep.ob('C05.rows', 'masked-preimage', okm and not bad, f'masked row hash consumes to_bytes_be of every cell in order (reordering calls: {bad})', gv.loc(), cfg)
    hashsites.check_site(ctx, rep, 'C05.hash', GEN_VECTOR_QUERIES, 'row hash')
