"""C17 — verification work is bounded by the size of the proof."""
import re
import common
import dataflow
import fieldflow
import guardtable as GT
from common import *

EXPLANATION = (
    'Every iteration site reachable from StarkProof::verify::<Layout> (per layout) is inventoried: MIR back-edge loops, '
    'iterator pipelines (driver calls such as collect/fold/extend with their adaptor chain chased back to its root '
    'source), size-taking allocations (with_capacity, vec![_; n], resize, reserve) and call-graph cycles. The leaves that '
    'bound each site are substituted up the call chain into verify\'s namespace (precise field maps of returned '
    'structs) and classified by static type: data (a vector/slice supplied in the proof, a length, a loop that runs while a '
    'container is non-empty), const (literals, const items, layout constants) or numeric (a scalar field of the proof). A '
    'numeric field must have an upper-bound guard — LE/LT against a constant, possibly through one equality to another '
    'bounded field — among the rejecting comparisons reachable from verify, located in a call that dominates the site in '
    'verify (validation precedes use). A vector sized by an earlier iteration inherits that iteration\'s class: only the site '
    'where a numeric value enters is an obligation. Recursion must be in the table (halving recursion of the Merkle walk). '
    'pow_felt/pow are square-and-multiply in an external crate (assumed logarithmic).')
NOT_DECIDED = ['actual wall time or memory', 'cost of external crate calls (pow_felt, hashing) beyond being called per iteration',
               'the generated evaluators are straight-line (no loops: checked by absence of back edges in their compact summaries is not possible; they are HIR-checked in C16 to contain no loop constructs)']
TRUSTED = ['rustc nightly MIR', 'recursion table in rules/props/c17.py']

# functions whose walk terminates by an argument the rules cannot derive (written as recursion today; the same walk
# written as a loop is covered by the same line)
RECURSION_OK = {
    COMPUTE_ROOT: 'each call halves a node index below 2^252 or consumes a queue element: depth <= 252 * queries',
}


def is_numeric(te, root, leaf):
    m = re.match(r'^a(\d+)(.*)$', leaf)
    if not m:
        return False
    k = int(m.group(1))
    if k >= len(root.locals):
        return False
    t = te.path_type(root.local_ty(k), m.group(2))
    if t is None:
        return True     # unknown type: be conservative
    if t is False:
        return False
    t = te.peel(t)
    return t.endswith('::Felt') or t in dataflow._PRIMS


WORK_BOUND = 1 << 24


def upper_bounds(db, guards, te=None, root=None):
    """canonical field -> list of guards giving it an upper bound (LE/LT field ; const) and equalities field==field"""
    ub, eq = {}, []
    for g in guards:
        if getattr(g, 'kind', None) in ('discr', 'bounds') or g.rel not in ('LE', 'LT', 'EQ'):
            continue
        l = GT.norm_side(db, g.lhs)
        r = GT.norm_side(db, g.rhs)
        num = (lambda x: is_numeric(te, root, x)) if te is not None else (lambda x: x.startswith('a'))
        lf = {fieldflow.canon(x) for x in l if x.startswith('a') and num(x)}
        rf = {fieldflow.canon(x) for x in r if x.startswith('a') and num(x)}
        if g.rel in ('LE', 'LT') and len(lf) == 1 and not rf and any(x.startswith('val:') for x in r) \
                and not any(x.startswith('op:') for x in l):
            # a bound only limits the work if it is small: `address < 2^64` validates an address, it does not make a
            # loop or an allocation of that many elements acceptable
            vals = [int(x[4:]) for x in r if x.startswith('val:') and x[4:].lstrip('-').isdigit()]
            if vals and max(vals) <= WORK_BOUND:
                ub.setdefault(next(iter(lf)), []).append(g)
        if g.rel == 'EQ' and len(lf) == 1 and len(rf) == 1 and not any(x.startswith('op:') for x in l | r):
            eq.append((next(iter(lf)), next(iter(rf)), g))
    return ub, eq

THOROUGH_MAIN_CONFIGS = ['b248s6', 'nostd']


def premises(db, rep, cfg):
    """The bound on every numeric-driven site is 'validated by StarkConfig::validate': the upper-bound conjuncts of the
    configuration statement (C11's frozen table: counts and exponents that drive loops, recursions and allocations) are
    premises of C17 and are re-established here with C11's matcher -- a bound that no longer covers every element
    (a zip over a shorter slice, a skipped layer) leaves a loop whose trip count is a free proof field."""
    from props import c11
    guards = dataflow.effective_guards(db, common.CONFIG_VALIDATE)
    cfg_guards = [g for g in guards if g.reject in ('err', 'mixed', 'panic')]
    matched, _ = GT.match_table(db, cfg_guards, c11.table(), c11.extras())
    n = 0
    for e in c11.table():
        if e.rel not in ('LE', 'LT') or not any(x.startswith('val:') for x in e.rhs) or any(x.startswith('val:') for x in e.lhs):
            continue
        n += 1
        gs = matched[e.name]
        rep.ob('C17.premise', e.name, bool(gs),
               f'upper bound {GT.describe(e.rel, e.lhs, e.rhs)} ({e.why}) ' +
               ('is required on every accepting path of StarkConfig::validate' if gs else
                'is no longer required for every element on every accepting path of StarkConfig::validate: the work it bounds '
                'is driven by an unvalidated proof field'),
               db.fns[gs[0].fn].loc(gs[0].line) if gs else db.fns[common.CONFIG_VALIDATE].loc(), cfg)
    # a per-element bound covers the vector only if the walk does: a sub-slice `v[a..b]` of a configuration vector with a
    # closed end must end at the vector's (validated) length -- `b` is len(v), or a value an equality guard ties to
    # len(v), and is not reduced by a subtraction. (Expected instances on the pinned tree: 0 -- validate indexes by
    # position; the rule exists for rewrites into slice/zip pipelines, where `zip` would hide a short slice.)
    n_sub = 0
    for p in sorted(db.reach([common.CONFIG_VALIDATE])):
        fn = db.fns.get(p)
        if fn is None or not fn.has_mir or not p.startswith(('swiftness_fri::config', 'swiftness_stark::config', 'swiftness_air::trace::config',
                                                             'swiftness_commitment::', 'swiftness_pow::config')):
            continue
        fl = None
        for bi, t in fn.calls():
            if t['f'].get('name') not in ('index', 'index_mut', 'get', 'get_mut') or len(t.get('args', [])) < 2:
                continue
            full = t['f'].get('full', '') + ' '.join(t['f'].get('targs', []))
            if not re.search(r'ops::range::(Range|RangeTo|RangeInclusive|RangeToInclusive)<', full):
                continue
            fl = fl or dataflow.Flow(db, fn)
            vec = sorted(x for x in fl.operand_leaves(t['args'][0]) if re.fullmatch(r'a\d+(\.[A-Za-z0-9_]+)+', x))
            if not vec:
                continue
            n_sub += 1
            agg = fl._agg_of_operand(t['args'][1]) or {}
            end = set(agg.get('end', set()))
            own = dataflow.own_guards(db, fn, fl)
            tied = set()
            for v in vec:
                tied.add(f'len({v})')
                for g in own:
                    if g.rel == 'EQ' and (f'len({v})' in g.lhs or f'len({v})' in g.rhs):
                        tied |= {x for x in (g.lhs | g.rhs) if dataflow.is_path_leaf(x)}
            ok = bool(end & tied) and 'op:sub' not in end
            rep.ob('C17.premise', f'subslice|{p}|{vec[0]}|{n_sub}', ok,
                   f'{p.split("::")[-1]}: sub-slice of {vec[0]} with end {sorted(end)[:6]} ' +
                   ('ends at the validated length' if ok else
                    'is not known to reach the end of the vector: per-element bounds checked over it (and a zip with it) leave '
                    'the remaining elements unvalidated'), fn.loc(t['line']), cfg)
    rep.note('closed_subslices_of_config_vectors', n_sub)
    # counted on the pinned tree: pow-bits, blow-up, queries, fri layers, fri step, last-layer bound, fri input size
    rep.floor('C17.premise', 'upper-bound conjuncts of the configuration statement', n, 5)


def run(ctx, rep):
    db = ctx.main
    cfg = db.config
    te = dataflow.typeenv(db)
    premises(db, rep, cfg)
    root = db.fn(VERIFY, 'C17')
    dom = root.dominators()
    lay = db.layouts()
    rep.floor('C17', 'LayoutTrait impls', len(lay), 7)
    total = 0
    for lname, lself in sorted(lay.items()):
        b = {'Layout': lself}
        gs = dataflow.effective_guards(db, VERIFY, b, sinks='iter')
        sites = [g for g in gs if (getattr(g, 'kind', '') or '').startswith('iter')]
        guards = [g for g in gs if not (getattr(g, 'kind', '') or '').startswith('iter')]
        ub, eqs = upper_bounds(db, guards, te, root)
        total += sum(1 for x in sites if x.kind != 'iter:alloc')
        ords = {}
        classes = {}
        for s in sites:
            k0 = (s.fn, s.kind)
            o = ords.get(k0, 0)
            ords[k0] = o + 1
            key = f'{lname}|{s.fn}|{s.kind}|{o}'
            nums = sorted({fieldflow.canon(x) for x in s.lhs if is_numeric(te, root, x) and not x.startswith('a2')})
            if s.kind == 'iter:loop' and s.root == 'cond' and s.fn in RECURSION_OK:
                # the same walk written as a loop instead of a self-call: same termination argument (table)
                classes['table'] = classes.get('table', 0) + 1
                rep.ob('C17.site', key, True, f'{s.kind} in {s.fn.split("::")[-1]}: {RECURSION_OK[s.fn]}', db.fns[s.fn].loc(s.line), cfg)
                continue
            consts = [x for x in s.lhs if x.startswith(('const:', 'lit:'))]
            if not nums:
                cls = 'data' if s.root == 'data' or not consts else 'const'
                classes[cls] = classes.get(cls, 0) + 1
                rep.ob('C17.site', key, True, f'{s.kind} in {s.fn.split("::")[-1]}: {cls}', db.fns[s.fn].loc(s.line), cfg)
                continue
            bad = []
            how = []
            for f in nums:
                cands = list(ub.get(f, []))
                for a, c, g in eqs:
                    other = c if a == f else (a if c == f else None)
                    if other and ub.get(other):
                        cands += [g]
                # validation must precede the site in verify
                site_bb = getattr(s, 'top_bb', None)
                ok = False
                for g in cands:
                    gb = getattr(g, 'top_bb', None)
                    if site_bb is None or gb is None or gb in dom.get(site_bb, ()):
                        ok = True
                        how.append(f'{f} bounded at {db.fns[g.fn].loc(g.line)}')
                        break
                if not ok:
                    bad.append(f)
            classes['validated' if not bad else 'numeric-unvalidated'] = classes.get('validated' if not bad else 'numeric-unvalidated', 0) + 1
            rep.ob('C17.site', key, not bad,
                   (f'{s.kind} in {s.fn.split("::")[-1]} is bounded by proof field(s) {nums}: ' +
                    ('validated: ' + '; '.join(how) if not bad else
                     f'{bad} has no upper-bound guard that precedes the site: the verifier loops/allocates in proportion to the field\'s value')),
                   db.fns[s.fn].loc(s.line), cfg, sample=(lname == 'recursive'))
        rep.note(f'classes[{lname}]', classes)
    # measured: about 43 loops + pipelines per layout (299 in all). The floor only guards against an analysis that
    # silently saw a fraction of the program; it is set well below the count so that replacing index loops by iterator
    # pipelines (fewer, fused sites) is not reported (allocation sites are not counted: removing one is a legitimate refactor)
    rep.floor('C17', 'loops and iterator pipelines over the 7 layouts', total, 200)
    # ---------- recursion ----------
    R = db.reach([VERIFY])
    idx = {p: i for i, p in enumerate(R)}
    graph = {p: [c for c in db.callees(p) if c in idx] for p in R}
    sccs = tarjan(graph)
    n_rec = 0
    for comp in sccs:
        if len(comp) > 1 or comp[0] in graph[comp[0]]:
            n_rec += 1
            ok = all(p in RECURSION_OK for p in comp)
            rep.ob('C17.recursion', '+'.join(sorted(comp)), ok,
                   f'recursive cycle {[p.split("::")[-1] for p in comp]}: ' + (RECURSION_OK.get(comp[0], 'not in the table of bounded recursions')),
                   db.fns[comp[0]].loc(), cfg)
    rep.note('recursive_cycles', n_rec)
    # generated evaluators and periodic columns: no loop constructs in their HIR
    import hirlib as H
    nl = 0
    for p in R:
        f = db.fns[p]
        if f.compact and f.hir:
            loops = sum(1 for n in H.walk(f.hir['value']) if n[0] == 'loop')
            nl += 1
            rep.ob('C17.generated', p, loops == 0, f'generated function {p.split("::")[-1]} contains {loops} loop construct(s)', f.loc(), cfg)
    rep.floor('C17.generated', 'large generated bodies checked for loops', nl, 15)


def tarjan(graph):
    import sys
    sys.setrecursionlimit(10000)
    index, low, on, st, out = {}, {}, set(), [], []
    c = [0]

    def visit(v):
        index[v] = low[v] = c[0]
        c[0] += 1
        st.append(v)
        on.add(v)
        for w in graph[v]:
            if w not in index:
                visit(w)
                low[v] = min(low[v], low[w])
            elif w in on:
                low[v] = min(low[v], index[w])
        if low[v] == index[v]:
            comp = []
            while True:
                w = st.pop()
                on.discard(w)
                comp.append(w)
                if w == v:
                    break
            out.append(comp)
    for v in graph:
        if v not in index:
            visit(v)
    return out
