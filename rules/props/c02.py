"""C02 — accepted proofs are tamper-evident at every position (structural necessary conditions)."""
import cfg
import common
import dataflow
import fieldflow
from common import *

EXPLANATION = (
    'That a changed value actually changes a hash or fails an equation is cryptography/algebra and is not decided. '
    'Decided, for a position to be bound at all: (a) field-flow coverage: the type closure of StarkProof is '
    'enumerated from the ADT table (every leaf field, through vectors and nested structs) and each leaf field must '
    'reach, from StarkProof::verify and per layout, a binding sink whose verdict propagates to verify\'s verdict: '
    'an argument of a hash primitive (Poseidon / Pedersen / Digest::update — commitments, OODS values, FRI '
    'coefficients, nonce through the transcript; decommitted cells, authentication nodes, FRI leaves through the '
    'Merkle hashes; public-input fields through get_hash) or an operand of a rejecting comparison (configuration '
    'numbers). Sinks inside a callee whose Result is dropped or swallowed do not count. (b) absorb-before-challenge '
    'is C08. (c) no dropped verdict: R-RES over Reach(verify) (shared with C01). (d) deletion is noticed: the length '
    'guards that make a shortened vector fail are present on every accepting path (table cells = columns*queries, '
    'FRI values = queries, last layer = 2^bound, OODS values = MASK_SIZE+CONSTRAINT_DEGREE).')
NOT_DECIDED = [
    'collision resistance / that a different value yields a different hash or a failing equation',
    'that every position inside a vector is individually bound (the flow is per field, elements are summarised by [*])',
]
TRUSTED = ['rustc nightly MIR and ADT tables', 'hash primitive catalogue in rules/dataflow.py (HASH_SINKS)']

# class of field -> acceptable sink kinds; one line of reason each
REQUIRED = [
    ('a1.config.', {'guard'}, 'configuration numbers are bound by validation comparisons'),
    ('a1.public_input.continuous_page_headers.prod', {'guard', 'hash'},
     'page products enter the memory product compared in the OODS equation (pages themselves are rejected by verify_public_input)'),
    ('a1.public_input.', {'hash'}, 'public-input fields seed the transcript through get_hash'),
    ('a1.unsent_commitment.', {'hash'}, 'prover messages are absorbed into the transcript', 'swiftness_transcript::transcript::Transcript::read_'),
    ('a1.witness.', {'hash'}, 'decommitted values and authentication nodes enter the Merkle hashes'),
]

THOROUGH_MAIN_CONFIGS = ['b248s6', 'nostd']


def run(ctx, rep):
    db = ctx.main
    cfgname = db.config
    lay = db.layouts()
    rep.floor('C02', 'LayoutTrait impls', len(lay), 7)
    fields = fieldflow.type_closure(db, 'swiftness_stark::types::StarkProof', 'a1')
    static_fields = [f for f in fields if '.dynamic_params.' not in f[0]]
    dyn_fields = [f for f in fields if '.dynamic_params.' in f[0]]
    # counted on the pinned tree: 50 leaf fields + 340 dynamic parameters
    rep.floor('C02.flow', 'leaf fields of StarkProof', len(static_fields), 50)
    rep.floor('C02.flow', 'dynamic parameter fields', len(dyn_fields), 340)
    rep.note('fields', {'static': len(static_fields), 'dynamic_params': len(dyn_fields)})
    # the public-input digest binds its fields on every evaluation (no filter / fallback / value-dependent branch on the
    # way into the hashes): a field that only sometimes reaches the seed is not tamper-evident
    import props.c13 as c13
    c13.unconditional(db, rep, db.fn(GET_HASH, 'C02'), rule='C02.digest')
    # every byte of both children enters the masked Merkle node hash (a node value is tamper-evident only if all of it
    # is hashed); same reading as C04.hash/preimage-order
    import props.c04 as c04
    okp_, evs_ = c04.node_preimage(db)
    rep.ob('C02.hash', 'node-preimage', okp_, f'masked node hash preimage: {evs_} (expected all bytes of x, then of y)', db.fn(HASH_FU, 'C02').loc(), cfgname)
    for lname, lself in sorted(lay.items()):
        sm = fieldflow.SinkMap(db, VERIFY, {'Layout': lself})
        for path, ty, vec in static_fields:
            ks = sm.kinds(path)
            kinds = {k[0] for k in ks}
            req = next((r for r in REQUIRED if path.startswith(r[0])), None)
            if req and len(req) > 3:
                kinds = {k[0] for k in ks if k[0] not in req[1] or k[1].startswith(req[3])}
            ok = bool(kinds & req[1]) if req else bool(kinds & {'hash', 'guard'})
            where = sorted({f'{k[1].split("::")[-1]}' for k in ks if k[0] in (req[1] if req else ())})[:3]
            rep.ob('C02.flow', f'{lname}|{path}', ok,
                   (f'{path} reaches {sorted(kinds & {"hash", "guard"})} via {where}' if ok else
                    f'{path} ({ty.split("::")[-1]}) reaches no binding sink of kind {sorted(req[1]) if req else "hash/guard"} '
                    f'from verify::<{lname}> (reached: {sorted(kinds)}): a free position — {req[2] if req else ""}'),
                   'crates/stark/src/types.rs', cfgname, sample=(lname == 'recursive' and 'nonce' in path))
        if lname == 'dynamic':
            # dynamic parameters: each must reach the get_hash digest (detail in C13) or a guard
            missing = []
            for path, ty, vec in dyn_fields:
                kinds = {k[0] for k in sm.kinds(path)}
                if not kinds & {'hash', 'guard'}:
                    missing.append(path.split('.')[-1])
            rep.ob('C02.flow', 'dynamic|a1.public_input.dynamic_params.*', not missing,
                   f'{len(dyn_fields) - len(missing)}/{len(dyn_fields)} dynamic parameters reach a hash/guard sink; missing: {missing[:5]}',
                   'crates/air/src/dynamic.rs', cfgname)
    # ---------- (c) result discipline ----------
    R = db.reach([VERIFY])
    n = 0
    ords = {}
    for p in R:
        f = db.fns[p]
        if not f.has_mir:
            continue
        for bi, t, uses, verdict in cfg.result_discipline(f):
            n += 1
            callee = t['f'].get('resolved') or t['f'].get('path') or 'indirect'
            k = ords.setdefault((p, callee), 0)
            ords[(p, callee)] = k + 1
            rep.ob('C02.result', f'{p}|{callee}|{k}', verdict == 'ok',
                   f'Result of {callee} in {p} is {verdict}: the positions it checks are unbound', f.loc(t['line']), cfgname)
    rep.floor('C02.result', 'Result-typed call sites in Reach(verify)', n, 340)
    # ---------- (d) deletion guards ----------
    length_guards(db, rep, lay)


def _find(guards, pred):
    return [g for g in guards if pred(g)]


def length_guards(db, rep, lay):
    cfgname = db.config
    b = {'Layout': sorted(lay.values())[0]}
    td = dataflow.effective_guards(db, TABLE_DECOMMIT)
    g1 = common.table_length_guard(db)
    rep.ob('C02.length', 'table-cells=columns*queries', bool(g1),
           'table_decommit must reject unless n_columns * queries.len() == values.len()', db.fns[TABLE_DECOMMIT].loc(), cfgname)
    fv = dataflow.effective_guards(db, FRI_VERIFY)
    g2 = _find(fv, lambda g: g.rel == 'EQ' and g.covers == 'all' and {'len(a1)', 'len(a3.values)'} <= (g.lhs | g.rhs)
               and g.fn == FRI_VERIFY)
    rep.ob('C02.length', 'fri-values=queries', bool(g2), 'fri_verify must reject unless queries.len() == decommitment.values.len()',
           db.fns[FRI_VERIFY].loc(), cfgname)
    g3 = _find(fv, lambda g: g.rel == 'EQ' and g.covers == 'all' and g.fn == FRI_VERIFY and any(
        ('len(a2.last_layer_coefficients)' in x and any(l.startswith('a2.config.log_last_layer_degree_bound') for l in y)
         and ('op:pow_felt' in y or 'op:pow' in y)) for x, y in ((g.lhs, g.rhs), (g.rhs, g.lhs))))
    rep.ob('C02.length', 'last-layer=2^bound', bool(g3),
           'fri_verify must reject unless last_layer_coefficients.len() == 2^log_last_layer_degree_bound',
           db.fns[FRI_VERIFY].loc(), cfgname)
    sc = dataflow.effective_guards(db, STARK_COMMIT, b)
    MS = 'const:' + LAYOUT_TRAIT + '::MASK_SIZE'
    CD = 'const:' + LAYOUT_TRAIT + '::CONSTRAINT_DEGREE'
    g4 = _find(sc, lambda g: g.rel == 'EQ' and g.covers == 'all' and any(
        ('len(a3.oods_values)' in x and MS in y and CD in y) for x, y in ((g.lhs, g.rhs), (g.rhs, g.lhs))))
    rep.ob('C02.length', 'oods=mask+degree', bool(g4),
           'stark_commit must reject unless oods_values.len() == MASK_SIZE + CONSTRAINT_DEGREE', db.fns[STARK_COMMIT].loc(), cfgname)
