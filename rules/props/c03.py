"""C03 — honest Stone proofs verify only under the matching build, with right hashes (structural part)."""
import os
import re
import common
import dataflow
import exprtree
import extract
import hashsites
import hirlib as H
import literals
from common import *

try:
    import tomllib
except ImportError:  # pragma: no cover
    tomllib = None

EXPLANATION = (
    'That the 25 shipped proofs verify is an execution and is not decided; neither is the serde round trip. Decided: (a) '
    'R-HASH: under each of the four commitment-hash configurations the three masked-hash sites (Merkle node hash, table row '
    'hash, proof of work) construct the hasher the feature names and keep the digest bytes it names; (b) R-FEAT: the '
    'manifests of stark, air, fri and cli wire every user-facing hash feature to exactly the matching commitment-hash '
    'feature and PoW hash, and stone5/stone6 reach air; (c) layout code: every validate_public_input rejects unless '
    'public_input.layout equals that module\'s LAYOUT_CODE, whose literal is the ASCII of the layout name, which is also '
    'what the parser emits (Display table of the parser\'s Layout enum); the parser\'s per-layout column counts and '
    'constraint degree agree with the verifier\'s trait constants; (d) Stone version: the public-input digest includes the '
    'friendly-layer count exactly under stone6, and the header fields are pushed in Stone\'s order; (e) the returned pair is '
    'C14-c.')
NOT_DECIDED = ['that honest proofs verify (execution)', 'serialise/deserialise round trip (serde derive semantics)']
TRUSTED = ['rustc nightly MIR/HIR', 'Cargo manifests parsed with tomllib', 'hash crates']

HASH_FEATS = ['keccak_160_lsb', 'keccak_248_lsb', 'blake2s_160_lsb', 'blake2s_248_lsb']


def run(ctx, rep):
    hashsites.check_site(ctx, rep, 'C03.hash', HASH_FU, 'node hash')
    hashsites.check_site(ctx, rep, 'C03.hash', GEN_VECTOR_QUERIES, 'row hash')
    for cname in ctx.ws_configs():
        db = ctx.db(cname)
        want = 'Keccak256' if extract.CONFIGS[cname]['hash'].startswith('keccak') else 'Blake2s256'
        fn = db.fn(VERIFY_POW, 'C03.hash')
        hs, _ = hashsites.describe(db, fn)
        apps = hashsites.applications(db, fn)
        rep.ob('C03.hash', f"pow/{extract.CONFIGS[cname]['hash']}", bool(hs) and all(h == want for h in hs) and len(apps) == 2,
               f'proof-of-work hashers {hs}, applied {len(apps)} time(s) (expected {want}, applied twice)', fn.loc(), cname)
    manifests(rep)
    db = ctx.main
    cfg = db.config
    # which layers are hashed with the masked hash at all (the other half of "right hashes")
    for key, ok, detail, loc in common.friendly_selection(db):
        rep.ob('C03.select', key, ok, detail, loc, cfg)
    lay = db.layouts()
    pdb = ctx.db('parser')
    # parser Display table
    disp = [f for p, f in pdb.fns.items() if 'layout::Layout as core::fmt::Display>::fmt' in p]
    names = {}
    if disp and disp[0].hir:
        for n in H.walk(disp[0].hir['value']):
            if n[0] == 'match':
                for arm in n[3:]:
                    pat, _, body = arm
                    var = None
                    for m in H.walk(pat):
                        if m[0] in ('path', 'pts', 'pstruct') and isinstance(m[1], str) and '::Layout::' in m[1]:
                            var = m[1].split('::')[-1]
                        if m[0] == 'pexpr':
                            for q in H.walk(m):
                                if q[0] == 'path' and isinstance(q[1], str) and '::Layout::' in q[1]:
                                    var = q[1].split('::')[-1]
                    strs = H.all_strings(body)
                    if var and strs:
                        names[var] = strs[0]
    rep.note('parser_layout_names', names)
    for lname, lself in sorted(lay.items()):
        code = literals.const_value(db, f'swiftness_air::layout::{lname}::LAYOUT_CODE')
        ascii_ = int.from_bytes(lname.encode(), 'big')
        camel = ''.join(w.capitalize() for w in lname.split('_'))
        rep.ob('C03.layout', f'{lname}/code-literal', code == ascii_, f'LAYOUT_CODE({lname}) = {hex(code) if code else code}; ASCII = {hex(ascii_)}', '', cfg)
        rep.ob('C03.layout', f'{lname}/parser-name', names.get(camel) == lname,
               f'parser encodes Layout::{camel} as {names.get(camel)!r} (the verifier expects ASCII("{lname}"))', disp[0].loc() if disp else '', 'parser')
        m = common.layout_method(db, lself, 'validate_public_input', 'C03')
        gs = dataflow.effective_guards(db, m.path)
        okg = any(g.rel == 'EQ' and g.covers == 'all' and 'a1.layout' in (g.lhs | g.rhs) and
                  any(x.startswith(f'const:swiftness_air::layout::{lname}::LAYOUT_CODE') for x in g.lhs | g.rhs) for g in gs)
        rep.ob('C03.layout', f'{lname}/guard', okg, f'{lname}::validate_public_input rejects unless layout == {lname}::LAYOUT_CODE', m.loc(), cfg,
               sample=(lname == 'dex'))
        # parser constants vs trait constants
        pc = parser_consts(pdb, lname)
        if lname != 'dynamic':
            n1 = n2 = None
            for i in db.impls:
                if i.get('self') == lself and i.get('trait', '').endswith('StaticLayoutTrait'):
                    vals = {it['name']: int(it['val']) for it in i['items'] if 'val' in it}
                    n1, n2 = vals.get('NUM_COLUMNS_FIRST'), vals.get('NUM_COLUMNS_SECOND')
            cd = db.layout_const(lself, 'CONSTRAINT_DEGREE')
            step = literals.const_value(db, f'swiftness_air::layout::{lname}::CPU_COMPONENT_STEP')
            ok = pc is not None and pc.get('num_columns_first') == n1 and pc.get('num_columns_second') == n2 and \
                pc.get('constraint_degree') == cd and pc.get('cpu_component_step') == step
            rep.ob('C03.layout', f'{lname}/parser-constants', ok,
                   f'parser LayoutConstants::{lname}() = {pc}; verifier: columns {n1}/{n2}, degree {cd}, step {step}', '', 'parser')
    # (d) header order
    for cname in ctx.stone_configs():
        d2 = ctx.db(cname)
        stone6 = 'stone6' in d2.features.get('swiftness_air', [])
        fn = d2.fn(GET_HASH, 'C03.stone')
        order = header_order(d2, fn)
        exp = (['a2'] if stone6 else []) + ['log_n_steps', 'range_check_min', 'range_check_max', 'layout', 'dynamic_params', 'segments',
                                            'padding_addr', 'padding_value', 'len(continuous_page_headers)', 'len(main_page)', 'pedersen',
                                            'continuous_page_headers']
        rep.ob('C03.stone', f'header-order/{"stone6" if stone6 else "stone5"}', order == exp,
               f'Poseidon header pushes: {order}; Stone {"6" if stone6 else "5"} order: {exp}', fn.loc(), cname, sample=True)


def header_order(db, fn):
    """the sources of the successive pushes into the header vector, in CFG order of the call blocks"""
    T = exprtree.Trees(db, fn)
    fl = dataflow.Flow(db, fn)
    # order blocks by a DFS from entry preferring fall-through (the function is a straight line with one loop and one if)
    order, seen, st = [], set(), [0]
    while st:
        b = st.pop()
        if b in seen:
            continue
        seen.add(b)
        order.append(b)
        for s in reversed(fn.succ(b)):
            st.append(s)
    pos = {b: i for i, b in enumerate(order)}
    events = []
    hd = None
    # the header vector = the local passed to poseidon_hash_many
    def parts(tr):
        """a.chain(b) / [x, y, z] written as one extend: the pieces in order, each as a pseudo leaf set"""
        if isinstance(tr, tuple) and tr and tr[0] == 'chain' and len(tr) == 3:
            return parts(tr[1]) + parts(tr[2])
        if isinstance(tr, tuple) and tr and tr[0] in ('array', 'tuple') and len(tr) > 1:
            out_ = []
            for x in tr[1:]:
                out_ += parts(x)
            return out_
        sh = exprtree.show(tr)
        if 'pedersen_hash' in sh:
            return [{'call:starknet_crypto::pedersen_hash::pedersen_hash#0'}]
        m = re.search(r'len\((?:[\w:<> ]+\()*a1\.(\w+)', sh)
        if m:
            return [{f'len(a1.{m.group(1)})'}]
        m = re.search(r'a1\.(\w+)', sh)
        if m:
            return [{f'a1.{m.group(1)}'}]
        if sh == 'a2':
            return [{'a2'}]
        return [set()]
    for bi, t in fn.calls():
        if t['f'].get('name') in ('push', 'extend') and len(t.get('args', [])) > 1:
            tr = T.operand(t['args'][1])
            if isinstance(tr, tuple) and tr and tr[0] in ('chain', 'array') and t['f'].get('name') == 'extend':
                for k_, lv in enumerate(parts(tr)):
                    events.append((pos.get(bi, 1 << 30) + k_ / 1000.0, lv))
                continue
            lv = fl.operand_leaves(t['args'][1])
            events.append((pos.get(bi, 1 << 30), lv))
    # the initial vec![..] contents come first: read the array aggregate written through the Box pointer
    first = []
    for b in fn.blocks:
        for s in b['stmts']:
            if s['k'] == 'assign' and s['rv'].get('k') == 'agg' and s['rv'].get('agg') == 'array' and len(s['rv']['ops']) >= 4:
                first = [exprtree.show(T.operand(o)) for o in s['rv']['ops']]
    out = []
    for x in first:
        out.append('a2' if x == 'a2' else x.split('.')[-1])
    for _, lv in sorted(events, key=lambda e: e[0]):
        c = set()
        for x in lv:
            if x.startswith('len(a1.'):
                c.add('len(' + x[7:-1].split('.')[0].split('[')[0] + ')')
            elif x.startswith('a1.'):
                c.add(x[3:].split('.')[0].split('[')[0])
            elif x.startswith('call:starknet_crypto::pedersen_hash'):
                c.add('pedersen')
        if 'pedersen' in c:
            out.append('pedersen')
        elif any(k.startswith('len(') for k in c):
            out.append(sorted(k for k in c if k.startswith('len('))[0])
        elif c:
            out.append(sorted(c)[0])
    return out


def parser_consts(pdb, lname):
    fn = pdb.fns.get(f'swiftness_proof_parser::layout::LayoutConstants::{lname}')
    if fn is None or fn.hir is None:
        return None
    for n in H.walk(fn.hir['value']):
        if n[0] == 'struct':
            out = {}
            for fe in n[2:]:
                if isinstance(fe, list) and len(fe) == 2 and isinstance(fe[0], str):
                    v = H.lit_int(H.strip(fe[1]))
                    out[fe[0]] = v
            return out
    return None


def manifests(rep):
    if tomllib is None:
        rep.fail_closed('C03.features', 'tomllib unavailable')
        return
    def load(p):
        with open(os.path.join(extract.REPO, p), 'rb') as fh:
            return tomllib.load(fh).get('features', {})
    stark = load('crates/stark/Cargo.toml')
    air = load('crates/air/Cargo.toml')
    fri = load('crates/fri/Cargo.toml')
    cli = load('cli/Cargo.toml')
    com = load('crates/commitment/Cargo.toml')
    pow_ = load('crates/pow/Cargo.toml')
    for hf in HASH_FEATS:
        powf = 'keccak' if hf.startswith('keccak') else 'blake2s'
        rep.ob('C03.features', f'stark/{hf}', sorted(stark.get(hf, [])) == sorted([f'swiftness_pow/{powf}', f'swiftness_commitment/{hf}']),
               f'stark feature {hf} enables {stark.get(hf)}', 'crates/stark/Cargo.toml', 'manifests')
        rep.ob('C03.features', f'air/{hf}', air.get(hf) == [f'swiftness_commitment/{hf}'], f'air feature {hf} enables {air.get(hf)}', 'crates/air/Cargo.toml', 'manifests')
        rep.ob('C03.features', f'fri/{hf}', fri.get(hf) == [f'swiftness_commitment/{hf}'], f'fri feature {hf} enables {fri.get(hf)}', 'crates/fri/Cargo.toml', 'manifests')
        rep.ob('C03.features', f'cli/{hf}', sorted(cli.get(hf, [])) == sorted([f'swiftness_air/{hf}', f'swiftness_stark/{hf}']),
               f'cli feature {hf} enables {cli.get(hf)}', 'cli/Cargo.toml', 'manifests')
        rep.ob('C03.features', f'commitment/{hf}', com.get(hf) == [], f'commitment feature {hf} = {com.get(hf)}', 'crates/commitment/Cargo.toml', 'manifests')
    for s in ('stone5', 'stone6'):
        rep.ob('C03.features', f'stark/{s}', stark.get(s) == [f'swiftness_air/{s}'], f'stark feature {s} enables {stark.get(s)}', 'crates/stark/Cargo.toml', 'manifests')
        rep.ob('C03.features', f'cli/{s}', sorted(cli.get(s, [])) == sorted([f'swiftness_air/{s}', f'swiftness_stark/{s}']), f'cli feature {s} enables {cli.get(s)}', 'cli/Cargo.toml', 'manifests')
    rep.ob('C03.features', 'pow-hashes', pow_.get('keccak') == [] and pow_.get('blake2s') == [], f'pow features: keccak={pow_.get("keccak")} blake2s={pow_.get("blake2s")}', 'crates/pow/Cargo.toml', 'manifests')
    for l in extract.LAYOUTS:
        rep.ob('C03.features', f'stark/{l}', stark.get(l) == [f'swiftness_air/{l}'], f'stark feature {l} enables {stark.get(l)}', 'crates/stark/Cargo.toml', 'manifests')
        rep.ob('C03.features', f'cli/{l}', sorted(cli.get(l, [])) == sorted([f'swiftness_air/{l}', f'swiftness_stark/{l}']), f'cli feature {l} enables {cli.get(l)}', 'cli/Cargo.toml', 'manifests')
