"""C06 — FRI accepts every polynomial below the bound; folding is polynomial folding."""
import cfg
import common
import dataflow
import exprtree
import hirlib as H
import literals
import poly
import symtree
from facts import AnalysisIncomplete
from literals import P

EXPLANATION = (
    'Decided clauses. (a) Literal tables: the 16 literals of get_fri_group() and OMEGA_16/8/4, '
    'FIELD_GENERATOR_INVERSE are read from HIR and compared with an integer oracle '
    '(g = 3^((p-1)/16); group[i] = g^bitrev4(i); OMEGA_n = inverse of the order-n generator = '
    'group[n-1]; 3*FIELD_GENERATOR_INVERSE = 1). (b) Fold identity, all inputs: the accepted value '
    'of fri_formula for each arm (coset size 2,4,8,16) is reconstructed from MIR by def-use expansion '
    'with local callees inlined, interpreted as a polynomial over F_p in (values[i], eval_point, '
    'x_inv); substituting values[i] = sum_j c_j (x*w_i)^j with w_i the oracle\'s bit-reversed group '
    'and applying x*x_inv = 1 must give exactly 2^k * sum_j eval_point^j * c_j (the statement\'s '
    'fold formula, c_j = P_j(y)); this is a polynomial identity check, not sampling. (c) Table '
    'agreement: the step sizes accepted by fri::Config::validate (MIN_FRI_STEP..=MAX_FRI_STEP from the '
    'guard constants) are exactly {log2 v} of the non-diverging arms of fri_formula, each arm requires '
    'values.len() == v, and fri_verify_layers computes coset_size as 2^step. (d) the coset is '
    'gathered in index order and x_inv is multiplied by the group element of the consumed query '
    '(compute_coset_elements), next x_inv = x_inv^coset_size. (e) verify_last_layer compares a Horner '
    'evaluation at 1/x_inv with the folded value for every query.')
NOT_DECIDED = [
    'completeness end to end (that honest commitments/auth paths verify): Merkle and transcript parts are '
    'covered by C04/C05/C08; their composition over all polynomials is not decided here',
    'the queue discipline of compute_next_layer for all query sets (loop behaviour; only its per-iteration '
    'structure is checked)',
]
TRUSTED = ['rustc nightly MIR/HIR', 'Python integers (oracle for the field, the order-16 subgroup)',
           'Felt +,-,* are field operations (starknet-types-core)']

FORMULA = 'swiftness_fri::formula::fri_formula'


def bitrev(i, bits):
    return int(format(i, f'0{bits}b')[::-1], 2) if bits else 0


def oracle_group():
    g = pow(3, (P - 1) // 16, P)
    assert pow(g, 16, P) == 1 and pow(g, 8, P) != 1
    return g, [pow(g, bitrev(i, 4), P) for i in range(16)]

THOROUGH_MAIN_CONFIGS = ['b248s6', 'nostd']


def run(ctx, rep):
    db = ctx.main
    cfgname = db.config
    g, W = oracle_group()
    # ---------------- (a) literal tables ----------------
    gf = db.fn(common.GET_FRI_GROUP, 'C06.group')
    strs = H.all_strings(gf.hir['value']) if gf.hir else []
    vals = []
    for s in strs:
        try:
            vals.append(literals.parse_hex(s))
        except ValueError:
            pass
    rep.ob('C06.group', 'length', len(vals) == 16, f'get_fri_group has {len(vals)} hex literals (expected 16)',
           gf.loc(), cfgname)
    for i in range(min(16, len(vals))):
        rep.ob('C06.group', f'entry{i}', vals[i] == W[i],
               f'fri group entry {i} = {hex(vals[i])}, expected g^bitrev4({i}) = {hex(W[i])}', gf.loc(), cfgname,
               sample=(i == 1))
    inv = lambda x: pow(x, P - 2, P)
    for name, n in (('OMEGA_16', 16), ('OMEGA_8', 8), ('OMEGA_4', 4)):
        path = 'swiftness_fri::formula::' + name
        v = literals.const_value(db, path)
        gen_n = pow(g, 16 // n, P)
        rep.ob('C06.omega', name, v is not None and v == inv(gen_n) and v == W[n - 1],
               f'{name} = {hex(v) if v is not None else None}; expected inverse of the order-{n} generator '
               f'= group[{n - 1}] = {hex(W[n - 1])}', db.const(path, 'C06.omega')['span']['file'], cfgname)
    fgi = literals.const_value(db, 'swiftness_fri::first_layer::FIELD_GENERATOR_INVERSE')
    rep.ob('C06.omega', 'FIELD_GENERATOR_INVERSE', fgi is not None and fgi * 3 % P == 1 and fgi < P,
           f'FIELD_GENERATOR_INVERSE*3 mod p = {None if fgi is None else fgi * 3 % P}', 'crates/fri/src/first_layer.rs', cfgname)

    # ---------------- (b) fold identity per arm ----------------
    ff = db.fn(FORMULA, 'C06.fold')
    arms = formula_arms(db, ff)
    rep.note('fold_arms', {str(v): (t['f'].get('resolved') if t else None) for v, (bb, t) in arms.items()})
    for v, (bb, term) in sorted(arms.items()):
        k = v.bit_length() - 1
        if 1 << k != v:
            rep.ob('C06.fold', f'arm{v}', False, f'fri_formula has a fold arm for coset size {v}, not a power of two',
                   ff.loc(), cfgname)
            continue
        try:
            tree = arm_tree(db, ff, bb, term)
            ok, detail = fold_identity(tree, v, W)
        except symtree.NotStraight as e:
            rep.fail_closed('C06.fold', f'arm {v}: cannot reconstruct a straight-line expression: {e}')
            continue
        rep.ob('C06.fold', f'arm{v}', ok, f'coset size {v}: {detail}', ff.loc(ff.blocks[bb]["term"]["line"]), cfgname,
               sample=True)

    # ---------------- (c) table agreement steps <-> arms ----------------
    lo = literals.const_value(db, 'swiftness_fri::config::MIN_FRI_STEP')
    hi = literals.const_value(db, 'swiftness_fri::config::MAX_FRI_STEP')
    gs = dataflow.effective_guards(db, common.FRI_CONFIG_VALIDATE)
    step_lo = step_hi = None
    for gd in gs:
        if gd.rel == 'LE' and any('fri_step_sizes[*]' in x for x in gd.rhs) and any(x.startswith('const:swiftness_fri::config::MIN_FRI_STEP') for x in gd.lhs):
            step_lo = lo
        if gd.rel == 'LE' and any('fri_step_sizes[*]' in x for x in gd.lhs) and any(x.startswith('const:swiftness_fri::config::MAX_FRI_STEP') for x in gd.rhs):
            step_hi = hi
    rep.ob('C06.steps', 'bounds-present', step_lo is not None and step_hi is not None,
           f'fri::Config::validate must bound every inner step by MIN_FRI_STEP..=MAX_FRI_STEP (found lo={step_lo}, hi={step_hi})',
           db.fns[common.FRI_CONFIG_VALIDATE].loc(), cfgname)
    if step_lo is not None and step_hi is not None:
        want = {1 << s for s in range(step_lo, step_hi + 1)}
        have = set(arms)
        rep.ob('C06.steps', 'arms==steps', want == have,
               f'accepted steps {step_lo}..={step_hi} need fold arms {sorted(want)}; fri_formula has {sorted(have)}',
               ff.loc(), cfgname, sample=True)
    # coset_size = 2^step in fri_verify_layers
    fvl = db.fn(common.FRI_VERIFY_LAYERS, 'C06.coset')
    T = exprtree.Trees(db, fvl)
    ok = False
    seen = ''
    for bi, t in fvl.calls():
        if t['f'].get('resolved') == common.COMPUTE_NEXT_LAYER:
            tr = T.operand(t['args'][2])
            if tr[0] == 'agg':
                cs = tr[3].get('coset_size')
                seen = exprtree.show(cs)
                ok = (isinstance(cs, tuple) and cs[0] in ('pow_felt', 'pow') and cs[1] == ('val', 2)
                      and 'a6' in seen)
    rep.ob('C06.coset', 'coset_size=2^step', ok, f'coset_size passed to compute_next_layer: {seen[:120]}',
           fvl.loc(), cfgname)
    coset_structure(db, rep)
    last_layer(db, rep)
    no_extra_rejections(db, rep)
    rep.floor('C06', 'obligations', len({o['key'] for o in rep.obligations}), 30)


def formula_arms(db, ff):
    """{coset size: (bb, delegating call terminator or None)} for the non-diverging arms of the
    integer switch in fri_formula"""
    ra = cfg.reach_accept(ff)
    arms = {}
    for bi, b in enumerate(ff.blocks):
        t = b['term']
        if b.get('cleanup') or t['k'] != 'switch' or t['ty'] == 'bool' or t['ty'] == 'isize':
            continue
        for v, tgt in t['targets']:
            if tgt in ra:
                arms[int(v)] = (tgt, None)
        if t['otherwise'] in ra and ff.blocks[t['otherwise']]['term']['k'] != 'unreachable':
            arms[-1] = (t['otherwise'], None)
    if not arms:
        raise AnalysisIncomplete('C06.fold', 'no integer dispatch found in fri_formula')
    return arms


def arm_tree(db, ff, start_bb, _term):
    """expanded accepted-value tree of the arm starting at start_bb"""
    reach = ff.reachable_from(start_bb)
    accs = [(bb, t) for bb, t in symtree.accepted_trees(db, ff) if bb in reach]
    # other arms' accepting blocks are not reachable from this arm's entry (they merge only at return)
    if len(accs) != 1:
        raise symtree.NotStraight(f'{len(accs)} accepting assignments reachable from bb{start_bb}')
    return symtree.expand(db, accs[0][1])


def fold_identity(tree, n, W):
    def leaf(t):
        if t == ('arg', 2):
            return poly.var('e')
        if t == ('arg', 3):
            return poly.var('u')
        if t[0] == 'proj' and t[1] == ('arg', 1) and t[2][0] == 'idx' and t[2][1][0] == 'val':
            return poly.var(f'v{t[2][1][1]:02d}')
        return None
    R = symtree.PolyEval(leaf).ev(tree)
    used = sorted({v for m in R for v, _ in m if v.startswith('v')})
    if used != [f'v{i:02d}' for i in range(n)]:
        return False, f'fold reads values {used}, expected indices 0..{n - 1}'
    if any(sum(e for v, e in m if v.startswith('v')) != 1 for m in R):
        return False, 'fold is not linear in the coset values'
    mapping = {}
    for i in range(n):
        s = {}
        for j in range(n):
            term = {((f'c{j:02d}', 1),) + (((('x', j),)) if j else ()): pow(W[i], j, P)}
            term = {tuple(sorted(k)): c for k, c in term.items()}
            s = poly.add(s, term)
        mapping[f'v{i:02d}'] = s
    S = poly.cancel(poly.subst(R, mapping), 'x', 'u')
    want = {}
    for j in range(n):
        mono = [(f'c{j:02d}', 1)] + ([('e', j)] if j else [])
        want[tuple(sorted(mono))] = n % P
    if S == want:
        return True, f'polynomial identity holds: fold = {n} * sum_j b^j * c_j ({len(R)} monomials expanded)'
    diff = poly.sub(S, want)
    return False, f'fold != {n}*sum_j b^j*P_j(y); difference has {len(diff)} monomials, e.g. {poly.show(diff, 3)}'


def coset_structure(db, rep):
    """compute_coset_elements: elements pushed in index order 0..coset_size; a consumed query must
    match index coset_start+index; x_inv multiplied by fri_group[index]; compute_next_layer: next x_inv =
    x_inv^coset_size, index = query/coset_size, y = fri_formula(coset, eval_point, x_inv, coset_size)"""
    fn = db.fn(common.COMPUTE_NEXT_LAYER, 'C06.next')
    T = exprtree.Trees(db, fn)
    agg = None
    for bi, b in enumerate(fn.blocks):
        for s in b['stmts']:
            if s['k'] == 'assign' and s['rv'].get('k') == 'agg' and s['rv'].get('adt', '').endswith('FriLayerQuery'):
                agg = T.rvalue(s['rv'], 0)
    ok = agg is not None
    detail = 'no FriLayerQuery constructed'
    if ok:
        f = agg[3]
        sx = exprtree.show(f.get('x_inv_value'))
        sy = exprtree.show(f.get('y_value'))
        si = exprtree.show(f.get('index'))
        c1 = f.get('x_inv_value', ('',))[0] in ('pow_felt', 'pow') and 'coset_size' in sx
        c2 = common.FRI_FORMULA.split('::')[-1] in sy and 'eval_point' in sy and 'coset_size' in sy
        c3 = 'div' in si and 'coset_size' in si
        ok = c1 and c2 and c3
        detail = f'next query: index={si[:80]} y={sy[:100]} x_inv={sx[:80]}'
    rep.ob('C06.next', 'next-query-shape', ok, detail, fn.loc(), db.config, sample=True)
    # fri_formula receives the gathered coset and the x_inv returned by compute_coset_elements
    cce = db.fn(common.COMPUTE_COSET, 'C06.next')
    fl = dataflow.Flow(db, cce)
    r0 = fl.find(0)
    ret = fl.agg.get(r0, {})
    el = ret.get('0', set())
    xi = ret.get('1', set())
    rep.ob('C06.next', 'coset-elements-from-queries-and-witness',
           any(x.startswith('a1') and 'y_value' in x for x in el) and any(x.startswith('a2') for x in el),
           f'coset elements leaves: {sorted(el)[:8]}', cce.loc(), db.config)
    rep.ob('C06.next', 'x_inv-times-group-element',
           any('x_inv_value' in x for x in xi) and any(x.startswith('a5') for x in xi) and 'op:mul' in xi,
           f'coset x_inv leaves: {sorted(xi)[:8]}', cce.loc(), db.config)
    # the consumed query must sit at coset_start + index
    gs = [g for g in dataflow.own_guards(db, cce, fl)]
    evs = []
    T2 = exprtree.Trees(db, cce)
    found = False
    for bi, t in cce.calls():
        if t['f'].get('name') == 'eq' and t['f'].get('trait', '').startswith('core::cmp'):
            a = exprtree.show(T2.operand(t['args'][0])) + ' == ' + exprtree.show(T2.operand(t['args'][1]))
            evs.append(a)
            if 'index' in a and 'a4' in a and 'add' in a:
                found = True
    rep.ob('C06.next', 'query-position-test', found, f'position test(s): {evs[:2]}', cce.loc(), db.config)


def last_layer(db, rep):
    fn = db.fn(common.VERIFY_LAST_LAYER, 'C06.last')
    fl = dataflow.Flow(db, fn)
    # own guards and those of a closure applied to every query by try_for_each / try_fold
    gs = [g for g in dataflow.effective_guards(db, common.VERIFY_LAST_LAYER) if getattr(g, 'kind', None) not in ('discr', 'bounds')]
    ok = False
    desc = []
    for g in gs:
        desc.append(g.key()[:160])
        both = g.lhs | g.rhs
        if g.rel == 'EQ' and any('y_value' in x for x in both) and any(x.startswith('a2') for x in both) \
                and any('x_inv_value' in x for x in both) and 'op:field_div' in both and g.covers == 'iteration':
            ok = True
    rep.ob('C06.last', 'horner-vs-folded', ok,
           f'verify_last_layer must require, for every query, y_value == horner(coefficients, 1/x_inv); guards: {desc[:2]}',
           fn.loc(), db.config)
    hf = [f for f in db.find_fns(r'swiftness_fri::last_layer::horner_eval$')]
    if hf:
        h = hf[0]
        flh = dataflow.Flow(db, h)
        ret = flh.leaves(0)
        rep.ob('C06.last', 'horner-shape', {'op:mul', 'op:add'} <= ret and any(x.startswith('a1') for x in ret)
               and 'a2' in ret and any(t['f'].get('name') in ('rev', 'rfold', 'try_rfold', 'next_back') for b_ in common.bodies(db, h) for _, t in b_.calls()),
               f'horner_eval: result leaves {sorted(ret)[:8]}, iterates coefficients in reverse', h.loc(), db.config)


# rejecting comparisons reachable from fri_verify (other than the error arms of lookups and `?`), classified by WHAT they
# compare, in fri_verify's own terms (a1 = queries, a2 = commitment, a3 = decommitment, a4 = witness), and by the call
# chain they are reached through -- not by the function the comparison happens to be written in (a check moved into a
# helper is the same check). Honest inputs pass all of these; anything else is an unexpected rejection (completeness).
FORMULA = 'swiftness_fri::formula::fri_formula'


def classify_rejection(g):
    import re
    chain = [v.split('@')[0] for v in g.via if '@' in v] + [g.fn]
    sides = (set(g.lhs), set(g.rhs))
    if g.rel == 'EQ' and {'len(a1)'} in sides and {'len(a3.values)'} in sides:
        return 'values=queries', g.covers == 'all', 'one decommitted value per query'
    if g.rel == 'EQ' and {'len(a2.last_layer_coefficients)'} in sides and \
            any('a2.config.log_last_layer_degree_bound' in x and any(y.startswith('op:pow') for y in x) for x in sides):
        return 'last-layer=2^bound', g.covers == 'all', 'last layer has 2^bound coefficients'
    if g.rel == 'NONEMPTY' and any(x.startswith('a4.') and x.endswith('.leaves') for x in g.lhs | g.rhs):
        return 'sibling-needed', None, 'a sibling leaf is needed and none is left (only for positions not covered by a query)'
    lits = [x for sd in sides for x in sd if re.fullmatch(r'lit:(2|4|8|16)', x)]
    if g.rel == 'EQ' and len(lits) == 1 and {lits[0]} in sides and any(x.startswith('len(') for x in g.lhs | g.rhs):
        kk = lits[0][4:]
        want = FORMULA + (kk if kk != '2' else '')
        if want in chain:
            return f'coset-length={kk}', True, f'coset length = {kk} in the {kk}-ary fold (holds by construction)'
    if g.rel == 'EQ' and any(c.endswith('::last_layer::verify_last_layer') for c in chain) and \
            any(x.startswith('a2.last_layer_coefficients') for x in g.lhs | g.rhs):
        return 'horner=folded', True, 'Horner evaluation of the last layer = folded value'
    return None, False, ''


def no_extra_rejections(db, rep):
    gs = dataflow.effective_guards(db, common.FRI_VERIFY)
    classes = {}
    for g in gs:
        if getattr(g, 'kind', None) in ('discr', 'bounds') or g.reject == 'panic':
            continue
        if not g.fn.startswith('swiftness_fri::'):
            continue    # rejections inside the commitment crate are the business of C04/C05
        cls, ok, why = classify_rejection(g)
        if cls == 'sibling-needed':
            # must stay conditional inside its function: an unconditional version rejects honest fully queried cosets
            fn = db.fns[g.fn]
            fl = dataflow.Flow(db, fn)
            own = [x for x in dataflow.own_guards(db, fn, fl) if x.rel == 'NONEMPTY' and getattr(x, 'kind', None) not in ('discr', 'bounds')]
            ok = bool(own) and all(x.covers == 'some' for x in own)
        key = cls or f'{g.fn}|{g.rel}'
        if key in classes and classes[key][0] is False:
            continue
        if key not in classes or not ok:
            classes[key] = (ok, cls, why, g)
    for key, (ok, cls, why, g) in sorted(classes.items()):
        rep.ob('C06.complete', key, bool(ok),
               (f'expected rejection: {why}' if ok else
                (f'rejection "{why}" is no longer conditional / complete' if cls else
                 f'unexpected rejection condition {g.key()[:120]} in {g.fn.split("::")[-1]} reachable from fri_verify: honest FRI instances may be rejected')),
               db.fns[g.fn].loc(g.line), db.config)
    rep.floor('C06.complete', 'kinds of rejecting comparisons of the fri crate reachable from fri_verify', len(classes), 5)
