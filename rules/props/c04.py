"""C04 — Merkle vector decommitment is complete and binding for all shapes (structural part)."""
import cfg as cfgmod
import common
import dataflow
import exprtree
import hashsites
import obligations
from common import *
from facts import op_place

EXPLANATION = (
    'Correctness of the queue walk for every tree shape is not decided (needs a proof or a model). Decided: (a) binding '
    'comparison: vector_commitment_decommit must-pass-through a checked compute_root_from_queries and rejects unless '
    'commitment_hash equals the recomputed root, whose leaf set contains the queries and the authentication nodes; (b) a '
    'missing sibling or queue element rejects by Err: every Option-returning lookup (get) in compute_root_from_queries ends '
    'in ok_or(..)? — none is unwrapped, indexed or swallowed, and the function contains no other crash site; (c) hash '
    'variants: under each of the four commitment-hash configurations hash_friendly_unfriendly constructs Keccak-256 / '
    'Blake2s-256 and keeps digest bytes [12..32) / [1..32); the 64-byte preimage is x.to_bytes_be() followed by '
    'y.to_bytes_be() (ordered mutation events on the buffer), hashed once; (d) friendly/masked selection: the boolean '
    'passed to hash_friendly_unfriendly is n_verifier_friendly_layers >= depth of the node, its two arms are Poseidon and '
    'the masked hash; (e) index arithmetic by def-use reconstruction: queries are shifted by 2^height with depth = height, '
    'the parent is index div 2 with depth - 1, the pair test is index + 1 == next.index on an even index, recursion stops '
    'at index 1, left/right order follows the low bit.')
NOT_DECIDED = ['completeness/binding of the queue discipline for all query sets and heights', 'hash collision resistance']
TRUSTED = ['rustc nightly MIR', 'sha3 / blake2 / starknet-crypto']

THOROUGH_MAIN_CONFIGS = ['b248s6', 'nostd']


def run(ctx, rep):
    db = ctx.main
    cfg = db.config
    # (a)
    obligations.check_chain(db, rep, 'C04.root', 'decommit->root', [VECTOR_DECOMMIT, COMPUTE_ROOT], None, None, cfg)
    fn = db.fn(VECTOR_DECOMMIT, 'C04')
    fl = dataflow.Flow(db, fn)
    ok = False
    for g in dataflow.own_guards(db, fn, fl):
        if g.rel == 'EQ' and g.covers == 'all' and g.reject == 'err':
            for x, y in ((g.lhs, g.rhs), (g.rhs, g.lhs)):
                if any(l.startswith('a1.commitment_hash') for l in x) and any(l.startswith('a2') for l in y) \
                        and any(l.startswith('a3.authentications') for l in y) and any(l.startswith('a1.config') for l in y):
                    ok = True
    rep.ob('C04.root', 'compared', ok, 'commitment_hash == root(queries, authentications, config) decides the verdict', fn.loc(), cfg, sample=True)
    T = exprtree.Trees(db, fn)
    clos = db.closure_creations(fn)
    shown = ''
    okq = False
    for cp in clos:
        cf = db.fns[cp]
        Tc = exprtree.Trees(db, cf)
        for b in cf.blocks:
            for s in b['stmts']:
                if s['k'] == 'assign' and s['rv'].get('k') == 'agg' and s['rv'].get('adt', '').endswith('QueryWithDepth'):
                    tr = Tc.rvalue(s['rv'], 0)
                    f = tr[3]
                    shown = exprtree.show(tr)[:200]
                    okq = exprtree.show(f.get('index')) in ('add(a1.0, a2.index)', 'add(a2.index, a1.0)') and \
                        exprtree.show(f.get('value')) == 'a2.value' and exprtree.show(f.get('depth')) in ('a1.1', 'a1.config.height')
    # the captured shift is 2^height
    shift_ok = False
    for b in fn.blocks:
        for s in b['stmts']:
            if s['k'] == 'assign' and s['rv'].get('k') == 'agg' and s['rv'].get('agg') == 'closure':
                caps = [exprtree.show(T.operand(o)) for o in s['rv']['ops']]
                shift_ok = any(c == 'pow_felt(2, a1.config.height)' for c in caps) and any(c.endswith('a1.config.height') and 'pow' not in c for c in caps)
    rep.ob('C04.index', 'shift-by-2^height', okq and shift_ok, f'shifted query: {shown}; captures 2^height: {shift_ok}', fn.loc(), cfg)
    # (b) lookups in compute_root_from_queries
    cr = db.fn(COMPUTE_ROOT, 'C04')
    n = 0
    for bi, t, uses, verdict in cfgmod.result_discipline(cr, want_ty=lambda ty: ty.startswith('core::option::Option<')):
        if t['f'].get('name') not in ('get', 'first', 'last', 'get_mut'):
            continue
        kinds = {u.kind for u in uses}
        okk = verdict == 'ok' and 'unwrapped' not in kinds
        rep.ob('C04.missing', f'get|{n}', okk, f'lookup {t["f"].get("name")} in compute_root_from_queries is {verdict} ({sorted(kinds)}): a missing node must become Err',
               cr.loc(t['line']), cfg)
        n += 1
    rep.floor('C04.missing', 'lookups in compute_root_from_queries', n, 2)
    import panics
    ps = [s for s in panics.sites(db, cr) if not (s['kind'] == 'assert' and s['detail'].startswith('Overflow'))]
    rep.ob('C04.missing', 'no-crash-sites', not ps, f'crash sites in compute_root_from_queries other than cursor arithmetic: {[(s["kind"], s["detail"]) for s in ps]}', cr.loc(), cfg)
    # (c) hash variants
    hashsites.check_site(ctx, rep, 'C04.hash', HASH_FU, 'node hash')
    import props.c09 as c09
    hf = db.fn(HASH_FU, 'C04')
    Th = exprtree.Trees(db, hf)
    okp_, evs = node_preimage(db)
    rep.ob('C04.hash', 'preimage-order', okp_, f'masked-hash preimage appends: {evs} (expected x then y, big-endian)', hf.loc(), cfg)
    ups = [t for _, t in hf.calls() if t['f'].get('name') == 'update']
    rep.ob('C04.hash', 'hashed-once', len(ups) == 1, f'{len(ups)} update call(s)', hf.loc(), cfg)
    pos = [t for _, t in hf.calls() if (t['f'].get('resolved') or '').endswith('poseidon_hash::poseidon_hash')]
    okp = len(pos) == 1 and [exprtree.show(Th.operand(a)) for a in pos[0]['args']] == ['a1', 'a2']
    rep.ob('C04.hash', 'friendly-arm', okp, 'the verifier-friendly arm is poseidon_hash(x, y)', hf.loc(), cfg)
    sw = [b['term'] for b in hf.blocks if b['term']['k'] == 'switch' and not b.get('cleanup')]
    okb = any(op_place(t['op']) and op_place(t['op'])['l'] == 3 or exprtree.show(Th.operand(t['op'])) == 'a3' for t in sw)
    rep.ob('C04.select', 'switch-on-flag', okb, 'hash_friendly_unfriendly selects the arm by its is_verifier_friendly argument', hf.loc(), cfg)
    # (d) the flag at each call site
    Tr = exprtree.Trees(db, cr)
    n = 0
    for bi, t in cr.calls():
        if t['f'].get('resolved') == HASH_FU:
            s = exprtree.show(Tr.operand(t['args'][2]))
            rep.ob('C04.select', f'flag|{n}', s.startswith('ge(a3,') and s.endswith('.depth)'),
                   f'is_verifier_friendly = {s} (expected n_verifier_friendly_layers >= current.depth)', cr.loc(t['line']), cfg)
            n += 1
    rep.floor('C04.select', 'hash_friendly_unfriendly call sites', n, 1)
    # (e) parent / stop / pair test
    texts = {'div_rem': [], 'eq': [], 'agg': []}
    for bi, t in cr.calls():
        nm = t['f'].get('name')
        if nm == 'div_rem':
            texts['div_rem'].append([exprtree.show(Tr.operand(a)) for a in t['args']])
        if nm == 'eq' and t['f'].get('trait', '').startswith('core::cmp'):
            texts['eq'].append(sorted(exprtree.show(Tr.operand(a)) for a in t['args']))
    for b in cr.blocks:
        for s in b['stmts']:
            if s['k'] == 'assign' and s['rv'].get('k') == 'agg' and s['rv'].get('adt', '').endswith('QueryWithDepth'):
                tr = Tr.rvalue(s['rv'], 0)
                texts['agg'].append({k: exprtree.show(v)[:70] for k, v in tr[3].items()})
    ok_div = any(len(a) == 2 and a[0].endswith('.index') and a[1] == '2' for a in texts['div_rem'])
    ok_stop = any(a[0] == '1' and a[1].endswith('.index') for a in texts['eq'])
    ok_pair = any(any('add(' in x and '.index' in x and '1' in x for x in a) for a in texts['eq'])
    ok_bit = any('0' in a and any('div_rem' in x for x in a) for a in texts['eq'])
    ok_par = bool(texts['agg']) and all('div_rem' in d.get('index', '') and d.get('depth', '').startswith('sub(') and d['depth'].endswith(', 1)') for d in texts['agg'])
    rep.ob('C04.index', 'parent=index/2', ok_div, f'div_rem calls: {texts["div_rem"]}', cr.loc(), cfg)
    rep.ob('C04.index', 'stop-at-root', ok_stop, f'comparisons: {texts["eq"]}', cr.loc(), cfg)
    rep.ob('C04.index', 'pair-test', ok_pair and ok_bit, 'sibling in queue iff bit == 0 and index + 1 == next.index', cr.loc(), cfg)
    rep.ob('C04.index', 'parent-node', ok_par, f'pushed parents: {texts["agg"][:2]}', cr.loc(), cfg)
    # left/right order by bit, path by path: hash(current, sibling) when bit == 0, hash(sibling, current) otherwise; the
    # sibling is the next queue entry only after index + 1 == next.index was tested true, else the next authentication node
    def unwrap(t):
        while isinstance(t, tuple) and t and t[0] in ('ok_or', 'ok_or_else') and len(t) >= 2:
            t = t[1]
        return t

    def plus1(t):
        if isinstance(t, tuple) and t[0] == 'proj' and t[2] == '0':
            t = t[1]
        return isinstance(t, tuple) and t[0] == 'add' and set(t[1:]) == {('arg', 2), ('val', 1)}

    def node(t):
        """'cur' / 'next' / 'auth' for queue[start] / queue[start+1] / authentications[auth_start]"""
        t = unwrap(t)
        if isinstance(t, tuple) and t[0] == 'proj' and isinstance(t[2], tuple) and t[2][0] == 'idx':
            if t[1] == ('arg', 1) and t[2][1] == ('arg', 2):
                return 'cur'
            if t[1] == ('arg', 1) and plus1(t[2][1]):
                return 'next'
            if t[1] == ('arg', 4) and t[2][1] == ('arg', 5):
                return 'auth'
        return None

    def value_of(t):
        t = unwrap(t)
        if isinstance(t, tuple) and t[0] == 'proj' and t[2] == 'value':
            return node(t[1])
        return 'auth' if node(t) == 'auth' else None

    def is_bit_test(c):
        # eq(div_rem(cur.index, 2).1, 0)
        if not (isinstance(c, tuple) and c[0] == 'eq' and ('val', 0) in c[1:]):
            return False
        o = [x for x in c[1:] if x != ('val', 0)]
        if len(o) != 1:
            return False
        o = o[0]
        return isinstance(o, tuple) and o[0] == 'proj' and o[2] == '1' and isinstance(o[1], tuple) and o[1][0] == 'div_rem' and \
            isinstance(o[1][1], tuple) and o[1][1][0] == 'proj' and o[1][1][2] == 'index' and node(o[1][1][1]) == 'cur' and o[1][2] == ('val', 2)

    def is_pair_test(c):
        # eq(add(cur.index, 1), next.index)
        if not (isinstance(c, tuple) and c[0] == 'eq' and len(c) == 3):
            return False
        for a, b in ((c[1], c[2]), (c[2], c[1])):
            if isinstance(a, tuple) and a[0] == 'add' and ('val', 1) in a[1:] and \
                    any(isinstance(x, tuple) and x[0] == 'proj' and x[2] == 'index' and node(x[1]) == 'cur' for x in a[1:]) and \
                    isinstance(b, tuple) and b[0] == 'proj' and b[2] == 'index' and node(b[1]) == 'next':
                return True
        return False
    seen_orders = set()
    bad_paths = []
    n_paths = 0
    for bi, t in cr.calls():
        if t['f'].get('resolved') != HASH_FU:
            continue
        ps = exprtree.paths_to(cr, bi)
        if ps is None:
            rep.fail_closed('C04.index', 'too many paths to a node-hash call in compute_root_from_queries')
            continue
        for pth in ps:
            PT = exprtree.PathTrees(db, cr, pth)
            if not PT.consistent():
                continue
            n_paths += 1
            dec = PT.decisions()
            bit = [v != '0' for c, v in dec if is_bit_test(c)]
            pair = [v != '0' for c, v in dec if is_pair_test(c)]
            a0, a1 = value_of(PT.operand(t['args'][0])), value_of(PT.operand(t['args'][1]))
            order = (a0, a1)
            if not bit:
                bad_paths.append((t['line'], f'{order} hashed on a path that never tests the low bit of the index'))
            elif bit[0] and order == ('cur', 'next') and pair and pair[0]:
                seen_orders.add('merge')
            elif bit[0] and order == ('cur', 'auth'):
                seen_orders.add('left')
            elif not bit[0] and order == ('auth', 'cur'):
                seen_orders.add('right')
            else:
                bad_paths.append((t['line'], f'bit==0 is {bit[0]}, index+1==next.index is {pair[:1]}: hashes {order}'))
    # completeness of the sibling lookup: queue[start + 1] is consulted only when it exists (start + 1 != len was tested
    # true on the path); otherwise an honest last left child would be rejected as IndexInvalid. `start` may be the
    # parameter (recursive form) or a cursor variable (loop form): the read and the test must agree on it.
    def succ_of(t):
        """X for a tree X + 1 (checked-add projection stripped), else None"""
        if isinstance(t, tuple) and t[0] == 'proj' and t[2] == '0':
            t = t[1]
        if isinstance(t, tuple) and t[0] == 'add' and len(t) == 3 and ('val', 1) in t[1:]:
            o = [x for x in t[1:] if x != ('val', 1)]
            return o[0] if len(o) == 1 else ('val', 1)
        return None
    nx_paths = nx_bad = 0
    for bi, t in cr.calls():
        if t['f'].get('name') not in ('get', 'index') or len(t.get('args', [])) != 2:
            continue
        for pth in exprtree.paths_to(cr, bi) or []:
            PT = exprtree.PathTrees(db, cr, pth)
            base, ix = PT.operand(t['args'][0]), succ_of(PT.operand(t['args'][1]))
            if ix is None or not (base == ('arg', 1) or exprtree.show(base).startswith(('a1', 'phi'))):
                continue
            if not PT.consistent():
                continue
            nx_paths += 1
            tested = False
            for c, v in PT.decisions():
                if isinstance(c, tuple) and len(c) == 3 and c[0] in ('Ne', 'ne', 'Lt', 'lt', 'Eq', 'eq') and \
                        any(x == ('len', base) for x in c[1:]) and any(succ_of(x) == ix for x in c[1:]):
                    holds = (v != '0') if c[0] in ('Ne', 'ne', 'Lt', 'lt') else (v == '0')
                    tested = tested or holds
            if not tested:
                nx_bad += 1
    rep.ob('C04.index', 'next-exists', nx_bad == 0,
           f'queue[start + 1] is read on {nx_paths} path(s); {nx_bad} of them without having tested start + 1 != queue.len()'
           + ('' if nx_paths else ' (no such read recognised: nothing to decide)'), cr.loc(), cfg)
    okl = not bad_paths and seen_orders == {'merge', 'left', 'right'}
    rep.ob('C04.index', 'left-right', okl,
           f'node hash argument order on {n_paths} paths: ' + ('(current, next) when bit==0 and index+1==next.index; (current, auth) when bit==0; '
                                                              '(auth, current) when bit==1' if okl else
                                                              f'cases seen {sorted(seen_orders)}; offending: {bad_paths[:3]}'),
           cr.loc(bad_paths[0][0]) if bad_paths else cr.loc(), cfg)


def node_preimage(db):
    """the masked node hash consumes all 32 big-endian bytes of the left child, then of the right child"""
    hf = db.fn(HASH_FU, 'C04')
    Th = exprtree.Trees(db, hf)
    evs = []
    for bi, t in hf.calls():
        if t['f'].get('name') in ('extend', 'extend_from_slice', 'push') and t.get('args'):
            evs.append(exprtree.show(Th.operand(t['args'][1])))
    return evs == ['to_bytes_be(a1)', 'to_bytes_be(a2)'], evs
