"""C07 — FRI rejects inconsistent layers and functions above the degree bound (structural part)."""
import common
import dataflow
import fieldflow
import obligations
from common import *

EXPLANATION = (
    'The probabilistic degree test is not decided. Decided: (a) in fri_verify_layers every loop iteration passes '
    'compute_next_layer (fold) and a table_decommit whose Result is propagated to fri_verify\'s verdict, and '
    'table_decommit transitively reaches the root comparison of vector_commitment_decommit; (b) verify_last_layer is '
    'on every accepting path of fri_verify with its Result propagated, and compares every folded query with a Horner '
    'evaluation of the last-layer coefficients; (c) the two length guards (values = queries, last layer = 2^bound) '
    'are on every accepting path; (d) field-flow from fri_verify: each of the witness leaves, authentication nodes, '
    'inner-layer commitments, evaluation points, last-layer coefficients, input values and input points reaches a '
    'hash argument or a rejecting comparison whose verdict propagates; (e) the layer loop is driven by n_layers - 1.')
NOT_DECIDED = ['the soundness error of the FRI query phase (probability statement)',
               'that a corrupted value actually changes the recomputed root (hash binding)']
TRUSTED = ['rustc nightly MIR', 'hash primitive catalogue']

THOROUGH_MAIN_CONFIGS = ['b248s6', 'nostd']


def run(ctx, rep):
    db = ctx.main
    cfgname = db.config
    obligations.check_chain(db, rep, 'C07.chain', 'layers/decommit', [FRI_VERIFY, FRI_VERIFY_LAYERS], None, None, cfgname)
    obligations.check_chain(db, rep, 'C07.chain', 'layers/each-iteration-decommit',
                            [FRI_VERIFY_LAYERS, TABLE_DECOMMIT, VECTOR_DECOMMIT, COMPUTE_ROOT], None, {0: 'iteration'}, cfgname)
    obligations.check_chain(db, rep, 'C07.chain', 'layers/each-iteration-fold',
                            [FRI_VERIFY_LAYERS, COMPUTE_NEXT_LAYER, FRI_FORMULA], None, {0: 'iteration', 1: 'iteration'}, cfgname)
    obligations.check_chain(db, rep, 'C07.chain', 'last-layer', [FRI_VERIFY, VERIFY_LAST_LAYER], None, None, cfgname)
    import props.c02 as c02
    c02.length_guards.__globals__  # same guard finders
    fv = dataflow.effective_guards(db, FRI_VERIFY)
    g2 = [g for g in fv if g.rel == 'EQ' and g.covers == 'all' and g.fn == FRI_VERIFY and {'len(a1)', 'len(a3.values)'} <= (g.lhs | g.rhs)]
    rep.ob('C07.length', 'values=queries', bool(g2), 'fri_verify must reject unless queries.len() == decommitment.values.len()',
           db.fns[FRI_VERIFY].loc(), cfgname)
    g3 = [g for g in fv if g.rel == 'EQ' and g.covers == 'all' and g.fn == FRI_VERIFY and any(
        ('len(a2.last_layer_coefficients)' in x and any(l.startswith('a2.config.log_last_layer_degree_bound') for l in y)
         and ('op:pow_felt' in y or 'op:pow' in y)) for x, y in ((g.lhs, g.rhs), (g.rhs, g.lhs)))]
    rep.ob('C07.length', 'last-layer=2^bound', bool(g3),
           'fri_verify must reject unless last_layer_coefficients.len() == 2^log_last_layer_degree_bound (on every accepting path)',
           db.fns[FRI_VERIFY].loc(), cfgname, sample=True)
    # field flow from fri_verify(a1 queries, a2 commitment, a3 decommitment, a4 witness)
    sm = fieldflow.SinkMap(db, FRI_VERIFY)
    need = {
        'a4.layers.leaves': ({'hash'}, 'sibling leaves of each coset are hashed into the layer rows'),
        'a4.layers.table_witness.vector.authentications': ({'hash'}, 'authentication nodes enter the Merkle hashes'),
        'a2.inner_layers.vector_commitment.commitment_hash': ({'guard'}, 'layer roots are compared with the recomputed roots'),
        'a2.eval_points': ({'hash', 'guard'}, 'evaluation points enter the folds whose results are hashed / compared'),
        'a2.last_layer_coefficients': ({'guard'}, 'coefficients are compared (Horner) with the folded values'),
        'a3.values': ({'hash', 'guard'}, 'input values are folded and hashed with their cosets'),
        'a3.points': ({'hash', 'guard'}, 'input points determine x_inv in every fold'),
        'a1': ({'hash', 'guard'}, 'query indices select cosets and Merkle positions'),
    }
    for path, (kinds, why) in need.items():
        got = {k[0] for k in sm.kinds(path)}
        rep.ob('C07.flow', path, bool(got & kinds),
               f'{path}: {why}; reaches {sorted(got)} (needs one of {sorted(kinds)})', db.fns[FRI_VERIFY].loc(), cfgname,
               sample=(path == 'a4.layers.leaves'))
    # loop bound of fri_verify_layers depends on n_layers
    fvl = db.fn(FRI_VERIFY_LAYERS, 'C07.loop')
    fl = dataflow.Flow(db, fvl)
    ok = False
    for latch, header in fvl.backedges:
        for bi in dataflow.natural_loop(fvl, latch, header):
            t = fvl.blocks[bi]['term']
            if t['k'] == 'call' and t['f'].get('name') == 'next':
                lv = fl.operand_leaves(t['args'][0])
                ok = ok or 'a2' in lv
    rep.ob('C07.loop', 'bound=n_layers', ok, 'the layer loop of fri_verify_layers is bounded by its n_layers argument', fvl.loc(), cfgname)
    fvf = db.fn(FRI_VERIFY, 'C07.loop')
    flv = dataflow.Flow(db, fvf)
    ok2 = False
    for bi, t in fvf.calls():
        if t['f'].get('resolved') == FRI_VERIFY_LAYERS:
            lv = flv.operand_leaves(t['args'][1])
            ok2 = any(x.startswith('a2.config.n_layers') for x in lv) and 'op:sub' in lv
    rep.ob('C07.loop', 'n_layers-1', ok2, 'fri_verify passes config.n_layers - 1 as the number of inner layers', fvf.loc(), cfgname)
    rep.floor('C07', 'obligations', len({o['key'] for o in rep.obligations}), 16)
