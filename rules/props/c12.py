"""C12 — evaluation and trace domains have generators of exactly the right order."""
import common
import exprtree
import literals
from literals import P

EXPLANATION = (
    'Two-part static argument. (i) Literal table: FIELD_GENERATOR and STARK_PRIME_MINUS_ONE are read '
    'from the HIR of their const initialisers; an independent integer oracle checks that the first is a '
    'generator of F_p^* (g^((p-1)/q) != 1 for every prime q | p-1 = 2^192*5*7*98714381*166848103, '
    'factorisation re-verified on every run) and the second is p-1. (ii) Def-use expression '
    'reconstruction of StarkDomains::new (straight-line MIR): each field of the returned struct must '
    'equal, modulo temporaries/let-bindings/commutativity and with constants compared by value, '
    'eval_generator = G^((p-1)/2^(t+c)), trace_generator = G^((p-1)/2^t), sizes = 2^(t+c), 2^t, logs = '
    't+c, t. If g generates F_p^* then g^((p-1)/2^n) has order exactly 2^n for every n <= 192 and '
    'trace_gen = eval_gen^(2^c) follows from the exponents, so (i)+(ii) give the property for all '
    '(t, c) with t+c <= 192 without enumerating them.')
NOT_DECIDED = [
    'behaviour for t+c > 192 or non-integer field elements (field_div then is not an integer division)',
    'correctness of Felt::pow_felt / field_div in starknet-types-core (external crate)',
]
TRUSTED = ['rustc nightly MIR/HIR', 'Python integer arithmetic for the oracle',
           'starknet-types-core: pow_felt is exponentiation, field_div is field division']


def V(n):
    return ('val', n)


def shape(db):
    """closed forms of the six StarkDomains fields: list of (field, ok, detail) + the field map, or None when the
    constructor is not one reconstructible struct literal"""
    fn = db.fn(common.DOMAINS_NEW, 'C12')
    T = exprtree.Trees(db, fn, inline=2)
    t = T.local(0)
    if not (isinstance(t, tuple) and t[0] == 'agg' and t[1].endswith('StarkDomains')):
        return None, exprtree.show(t)[:200]
    fields = t[3]
    # accepted spellings of the operations
    POW = ('pow_felt', 'pow')
    DIV = ('field_div', 'floor_div')
    ADD = ('add',)

    def is_op(x, names, n):
        return isinstance(x, tuple) and len(x) == n + 1 and x[0] in names

    def is_sum(x):
        return is_op(x, ADD, 2) and {x[1], x[2]} == {('arg', 1), ('arg', 2)}

    def pow2(x, which):
        if not is_op(x, POW, 2) or x[1] != V(2):
            return False
        return is_sum(x[2]) if which == 'eval' else x[2] == ('arg', 1)

    def gen(x, which):
        """G^((p-1)/2^e) with G a generator literal and the dividend the literal p-1"""
        if not is_op(x, POW, 2) or x[1][0] != 'val':
            return False, 'not a power of a constant'
        G = x[1][1]
        if not literals.is_generator(G % P):
            return False, f'base {G} is not a generator of F_p^*'
        e = x[2]
        if not is_op(e, DIV, 2):
            return False, 'exponent is not a quotient'
        if e[1] != V(P - 1):
            return False, 'dividend is not the literal p-1'
        if not pow2(e[2], which):
            return False, 'divisor is not 2^(%s)' % ('t+c' if which == 'eval' else 't')
        return True, 'ok'

    out = []
    checks = {
        'log_eval_domain_size': (is_sum(fields.get('log_eval_domain_size')), 'must be t + c'),
        'eval_domain_size': (pow2(fields.get('eval_domain_size'), 'eval'), 'must be 2^(t+c)'),
        'log_trace_domain_size': (fields.get('log_trace_domain_size') == ('arg', 1), 'must be t'),
        'trace_domain_size': (pow2(fields.get('trace_domain_size'), 'trace'), 'must be 2^t'),
    }
    for name, (ok, why) in checks.items():
        out.append((name, ok, f'{name} {why}; reconstructed: {exprtree.show(fields.get(name))[:160]}'))
    for name, which in (('eval_generator', 'eval'), ('trace_generator', 'trace')):
        ok, why = gen(fields.get(name), which)
        if not ok and which == 'trace':
            # equivalent closed form named by the property itself: eval_generator ^ (2^c), exactly
            tg = fields.get(name)
            if is_op(tg, POW, 2) and tg[1] == fields.get('eval_generator') and gen(tg[1], 'eval')[0] \
                    and is_op(tg[2], POW, 2) and tg[2][1] == V(2) and tg[2][2] == ('arg', 2):
                ok, why = True, 'ok (eval_generator^(2^c))'
        out.append((name, ok, f'{name}: {why}; reconstructed: {exprtree.show(fields.get(name))[:200]}'))
    return out, fields


def run(ctx, rep):
    literals.oracle_selfcheck()
    for cfg in ctx.stone_configs():
        db = ctx.db(cfg)
        fn = db.fn(common.DOMAINS_NEW, 'C12')
        loc = fn.loc()
        items, fields = shape(db)
        if items is None:
            rep.fail_closed('C12.shape', f'StarkDomains::new does not return a struct literal reconstructible '
                                         f'from straight-line MIR: {fields}')
            return
        g = literals.const_value(db, 'swiftness_air::domains::FIELD_GENERATOR')
        pm1 = literals.const_value(db, 'swiftness_air::domains::STARK_PRIME_MINUS_ONE')
        for name, ok, detail in items:
            rep.ob('C12.shape', name, ok, detail, loc, cfg, sample=True)
        # the literals are checked by value wherever they are used in the closed forms above (gen() tests the base and
        # the dividend); the named const items, when they exist, are checked as well
        for cname, okv, msg in (('FIELD_GENERATOR', g is not None and literals.is_generator(g % P) and g < P, 'must generate F_p^*'),
                                ('STARK_PRIME_MINUS_ONE', pm1 == P - 1, 'must be p-1')):
            item = db.consts.get('swiftness_air::domains::' + cname)
            if item is None:
                continue
            val = g if cname == 'FIELD_GENERATOR' else pm1
            rep.ob('C12.literal', cname, okv, f'{cname} literal = {hex(val) if val is not None else None}: {msg}',
                   item['span']['file'], cfg)
        rep.ob('C12.fields', 'six-fields', set(fields) == {'log_eval_domain_size', 'eval_domain_size',
                                                            'eval_generator', 'log_trace_domain_size',
                                                            'trace_domain_size', 'trace_generator'},
               f'StarkDomains fields built: {sorted(fields)}', loc, cfg)
    rep.note('configs', ctx.stone_configs())
    rep.floor('C12', 'obligations', len({o['key'] for o in rep.obligations}), 7)
