"""C19 — parser and CLI conversion hand the verifier exactly what the file says."""
import json
import exprtree
import os
import re
import cfg as cfgmod
import common
import dataflow
import extract
import fieldflow
import hirlib as H
import panics
from facts import op_place

EXPLANATION = (
    'Over the type-checked parser library and CLI conversion (shim crates whose lib path points at the repository files): '
    '(a) cast inventory: every narrowing / sign-changing / float-to-int cast and every truncating conversion '
    '(BigUint::to_u64_digits()[..]) reachable from parse() or any TransformTo::transform_to must be in the reasoned safe '
    'table or is a finding; (b) panic-site inventory (same catalogue as C18) over Reach(parse) and Reach(transform_to): '
    'malformed input must become Err, not a crash; (c) the Option results of the repository\'s own fallible parsers '
    '(from_str_hex, log2_if_power_of_2, Builtin::from_str) must not be swallowed (filter_map / if-let without else) — '
    'R-RES on Option; (d) field flow of the conversion: every leaf field of the parser\'s StarkProof must reach the '
    'verifier struct built by transform_to (redundant count fields whitelisted) and every field of the built struct must '
    'derive from the parsed proof (nothing dropped, nothing invented); (e) order tables: Builtin::ordered() restricted to '
    'each layout\'s builtins equals that layout\'s `segments` index order; the sorted key set of the shipped dynamic proof '
    '(BTreeMap iteration order) with Stone\'s __ -> _ spelling equals the DynamicParams field order; no sort/reverse/dedup '
    'is applied to an annotation stream between extraction and conversion.')
NOT_DECIDED = ['that the regular expressions select the right annotation lines (string semantics)',
               'cli/src/main.rs and the parser binary (need clap, not buildable offline): 39 straight lines, no logic']
TRUSTED = ['rustc nightly MIR/HIR of the shim crates (same sources, dependencies minus clap)', 'tables/c19_safe.json',
           'regex / serde_json / num-bigint behaviour']

PARSE = 'swiftness_proof_parser::parse'
FALLIBLE = ('::from_str_hex', '::log2_if_power_of_2', 'Builtin as core::str::traits::FromStr>::from_str')
DERIVED = {'n_values', 'n_authentications', 'n_leaves', 'n_segments', 'main_page_len', 'n_continuous_pages'}
SAFE_PATH = os.path.join(os.path.dirname(os.path.dirname(os.path.dirname(os.path.abspath(__file__)))), 'tables', 'c19_safe.json')
WIDTH = {'u8': 8, 'u16': 16, 'u32': 32, 'u64': 64, 'u128': 128, 'usize': 64, 'i8': 8, 'i16': 16, 'i32': 32, 'i64': 64,
         'i128': 128, 'isize': 64}


def lossy(frm, to, ck):
    if ck.startswith('FloatToInt'):
        return True
    if frm in WIDTH and to in WIDTH:
        if WIDTH[to] < WIDTH[frm]:
            return True
        if frm[0] != to[0] and not (frm[0] == 'u' and WIDTH[to] > WIDTH[frm]):
            return True
    return False


def root_of(path):
    return re.sub(r'(::\{closure#\d+\})+$', '', path)


def inventory(db, rep, R, safe, scope, cfgname):
    """casts + panic sites over the functions in R. A function and the closures written inside it are one source-level
    body: sites are keyed <function>|<kind>|<n-th such site of the function, its own body first, then its closures>, so
    that turning a closure into a loop (or back) does not rename a site."""
    n = 0
    groups = {}
    for p in sorted(R):
        groups.setdefault(root_of(p), []).append(p)
    for root, members in sorted(groups.items()):
        ords = {}
        for p in sorted(members, key=lambda q: (q != root, q)):
            fn = db.fns[p]
            if not fn.has_mir:
                continue
            items = []
            for bi, b in enumerate(fn.blocks):
                if b.get('cleanup'):
                    continue
                for s in b['stmts']:
                    if s['k'] == 'assign' and s['rv']['k'] == 'cast' and s['rv']['ck'].split('(')[0] in ('IntToInt', 'FloatToInt'):
                        if lossy(s['rv']['from'], s['rv']['to'], s['rv']['ck']):
                            items.append((f"cast:{s['rv']['from']}->{s['rv']['to']}", s['line']))
                t = b['term']
                if t['k'] == 'call' and t['f'].get('name') == 'to_u64_digits':
                    items.append(('truncate:to_u64_digits', t['line']))
            for s in panics.sites(db, fn):
                items.append((f"{s['kind']}:{s['detail']}", s['line']))
            for kd, line in items:
                o = ords.get(kd, 0)
                ords[kd] = o + 1
                n += 1
                ent = safe.get(f'{p}|{kd}') or safe.get(f'{root}|{kd}')
                key = f'{root}|{kd}|{o}'
                if ent is not None and (ent.get('ordinals') is None or o in ent['ordinals']):
                    rep.ob(f'C19.{scope}', key, True, f"table: {ent['reason']}", fn.loc(line), cfgname)
                else:
                    what = 'lossy conversion' if kd.startswith(('cast', 'truncate')) else 'can panic on a malformed file'
                    rep.ob(f'C19.{scope}', key, False, f'{kd} in {p}: {what}; no disposition in tables/c19_safe.json', fn.loc(line), cfgname)
    return n


def run(ctx, rep):
    with open(SAFE_PATH) as fh:
        safe = json.load(fh)
    pdb = ctx.db('parser')
    if PARSE not in pdb.fns:
        rep.fail_closed('C19', 'swiftness_proof_parser::parse not found')
        return
    R = pdb.reach([PARSE])
    n1 = inventory(pdb, rep, R, safe, 'parser', 'parser')
    rep.floor('C19.parser', 'functions reachable from parse()', len(R), 45)
    rep.floor('C19.parser', 'cast/panic sites in the parser', n1, 30)
    swallowed(pdb, rep, R)
    orders(ctx, pdb, rep, R)
    pattern_template(pdb, rep)
    derived_logs(pdb, rep)
    parser_mapping(pdb, rep, R)
    annotation_kinds(pdb, rep)
    main_page_selection(pdb, rep)
    seen_transform = set()
    for cname in ctx.cli_configs():
        cdb = ctx.db(cname)
        ts = sorted(p for p in cdb.fns if 'swiftness::transform::TransformTo<' in p and p.endswith('::transform_to'))
        rep.floor('C19.cli', f'TransformTo impls [{cname}]', len(ts), 24)
        R2 = [p for p in cdb.reach(ts) if p.startswith(('<swiftness', 'swiftness::')) or 'DynamicParams' in p]
        R2 = [p for p in R2 if not p.startswith(('swiftness_stark', 'swiftness_fri', 'swiftness_commitment', 'swiftness_pow', 'swiftness_transcript'))]
        new = [p for p in R2 if p not in seen_transform]
        seen_transform |= set(R2)
        inventory(cdb, rep, new, safe, 'cli', cname)
        conversion_flow(cdb, rep, cname)
        conversion_fields(cdb, rep, cname, ts)


def swallowed(db, rep, R):
    """Option results of the repo's fallible parsers must not be dropped"""
    n = 0
    for p in sorted(R):
        fn = db.fns[p]
        if not fn.has_mir:
            continue
        # direct calls
        k = 0
        for bi, t, uses, verdict in cfgmod.result_discipline(fn, want_ty=lambda ty: ty.startswith('core::option::Option<')):
            callee = t['f'].get('resolved') or t['f'].get('path') or ''
            full = t['f'].get('full') or callee
            if not any(x in callee or x in full for x in FALLIBLE):
                continue
            n += 1
            rep.ob('C19.swallow', f'{p}|{callee.split("::")[-1]}|{k}', verdict == 'ok',
                   f'Option result of {callee.split("::")[-1]} in {p.split("::")[-1]} is {verdict}: a malformed value is skipped silently',
                   fn.loc(t['line']), 'parser')
            k += 1
        # fallible parser passed as a function value to a skipping adaptor
        k = 0
        for bi, t in fn.calls():
            if t['f'].get('name') in ('filter_map', 'flat_map', 'find_map', 'map_while') and len(t.get('args', [])) > 1:
                c = t['args'][1].get('c')
                target = c.get('fn') if c else None
                closure_hit = None
                pl = op_place(t['args'][1])
                if pl is not None:
                    for cp in db.closure_creations(fn):
                        cf = db.fns.get(cp)
                        if cf and cf.has_mir and any(any(x in (tt['f'].get('full') or '') for x in FALLIBLE) for _, tt in cf.calls()) \
                                and cf.locals and cf.locals[0]['ty'].startswith('core::option::Option<'):
                            closure_hit = cp
                if (target and any(x in target or x in (c.get('fn_args') or '') for x in FALLIBLE)) or closure_hit:
                    n += 1
                    rep.ob('C19.swallow', f'{p}|{t["f"].get("name")}|{k}', False,
                           f'{t["f"].get("name")}({(target or closure_hit).split("::")[-1]}) in {p.split("::")[-1]} drops every element that fails to parse',
                           fn.loc(t['line']), 'parser')
                    k += 1
    rep.floor('C19.swallow', 'uses of the fallible parsers examined', n, 5)


def conversion_flow(cdb, rep, cname):
    top = [p for p in cdb.fns if p.endswith('::transform_to') and 'TransformTo<swiftness_stark::types::StarkProof>' in p]
    if len(top) != 1:
        rep.fail_closed('C19.flow', f'top-level transform_to not found in {cname}')
        return
    fn = cdb.fns[top[0]]
    fl = dataflow.Flow(cdb, fn)
    ret = fl.leaves(0)
    have = {fieldflow.canon(x) for x in ret if x.startswith('a1')}
    src = fieldflow.type_closure(cdb, 'swiftness_proof_parser::stark_proof::StarkProof', 'a1')
    rep.floor('C19.flow', f'leaf fields of the parsed proof [{cname}]', len(src), 45)
    for path, ty, vec in src:
        leaf = path.split('.')[-1]
        ok = any(h == path or h.startswith(path + '.') or path.startswith(h + '.') and False for h in have)
        if leaf in DERIVED:
            rep.ob('C19.flow', f'src|{path}', True, f'{path}: redundant count field (derived from the vector it describes)', fn.loc(), cname)
            continue
        rep.ob('C19.flow', f'src|{path}', ok,
               f'parsed field {path} ' + ('reaches the verifier proof' if ok else 'is parsed and then dropped by transform_to'),
               fn.loc(), cname, sample=not ok)
    # nothing invented: every field of the built struct depends on the parsed proof
    agg = fl.agg.get(fl.find(0), {})
    dst = fieldflow.type_closure(cdb, 'swiftness_stark::types::StarkProof', 'r')
    rep.floor('C19.flow', f'leaf fields of the verifier proof [{cname}]', len(dst), 50)
    for path, ty, vec in dst:
        if '.dynamic_params.' in path:
            continue
        key = path[2:]
        lv = None
        parts = key.split('.')
        for n in range(len(parts), 0, -1):
            k = '.'.join(parts[:n])
            if k in agg:
                lv = agg[k]
                break
        ok = lv is not None and any(x.startswith('a1') for x in lv)
        rep.ob('C19.flow', f'dst|{key}', ok,
               f'verifier field {key} ' + ('derives from the parsed proof' if ok else
                                           f'does not derive from the parsed proof (built from {sorted(lv)[:3] if lv else "nothing"}): invented / emptied'),
               fn.loc(), cname)


def camel_to_screaming(s):
    return re.sub(r'(?<=[a-z0-9])(?=[A-Z])', '_', s).upper().replace('RANGE_CHECK_96', 'RANGE_CHECK96')


def orders(ctx, pdb, rep, R):
    # Builtin::ordered() from HIR
    of = pdb.fns.get('swiftness_proof_parser::builtins::Builtin::ordered')
    if of is None or of.hir is None:
        rep.fail_closed('C19.order', 'Builtin::ordered not found')
        return
    order = []
    for n in H.walk(of.hir['value']):
        if n[0] == 'path' and isinstance(n[1], str) and n[1].startswith('swiftness_proof_parser::builtins::Builtin::'):
            order.append(camel_to_screaming(n[1].split('::')[-1]))
    adb = ctx.main
    lay = adb.layouts()
    for lname in sorted(lay):
        pre = f'swiftness_air::layout::{lname}::segments::'
        segs = {p[len(pre):]: int(c['val']) for p, c in adb.consts.items() if p.startswith(pre) and c.get('val') is not None}
        names = [k for k in segs if k != 'N_SEGMENTS']
        by_idx = sorted(names, key=lambda k: segs[k])
        expect = [b for b in order if b in names]
        ok = by_idx == expect and len(names) == segs.get('N_SEGMENTS') and set(names) <= set(order)
        rep.ob('C19.order', f'segments/{lname}', ok,
               f'{lname}: segment index order {by_idx} vs parser builtin order restricted to the layout {expect}', '', 'parser')
    # from_str table: every variant name maps from its snake-case spelling
    fs = [f for p, f in pdb.fns.items() if 'Builtin as core::str::traits::FromStr>::from_str' in p]
    if fs and fs[0].hir:
        arms = []
        for n in H.walk(fs[0].hir['value']):
            if n[0] == 'match':
                for arm in n[3:]:
                    pat, _, body = arm
                    lit = None
                    for m in H.walk(pat):
                        if m[0] == 'lit' and isinstance(m[1], str):
                            lit = m[1]
                    var = None
                    for m in H.walk(body):
                        if m[0] == 'path' and isinstance(m[1], str) and '::Builtin::' in m[1]:
                            var = m[1].split('::')[-1]
                    if lit and var:
                        arms.append((lit, var))
        bad = [(l, v) for l, v in arms if camel_to_screaming(v).lower() != l]
        rep.ob('C19.order', 'builtin-names', not bad and len(arms) == len(order),
               f'{len(arms)} segment names map to their builtin ({len(order)} builtins ordered); mismatches: {bad}', fs[0].loc(), 'parser')
    # dynamic params: sorted JSON keys == struct field order
    adt = adb.adts.get('swiftness_air::dynamic::DynamicParams')
    fields = [f['name'] for f in adt['variants'][0]['fields']] if adt else []
    path = os.path.join(extract.REPO, 'examples', 'proofs', 'dynamic', 'cairo0_stone6_example_proof.json')
    try:
        with open(path) as fh:
            keys = list(json.load(fh)['public_input']['dynamic_params'].keys())
    except Exception as e:  # the data file is part of the repository
        rep.fail_closed('C19.order', f'cannot read {path}: {e}')
        keys = []
    mapped = [k.replace('__', '_') for k in sorted(keys)]
    rep.ob('C19.order', 'dynamic-params', bool(fields) and mapped == fields,
           f'sorted key order of the shipped dynamic proof ({len(keys)} keys, __ -> _) equals the DynamicParams field order ({len(fields)} fields)',
           'crates/air/src/dynamic.rs', 'parser')
    # no reordering of annotation streams
    allowed = {'swiftness_proof_parser::builtins::Builtin::sort_segments', 'swiftness_proof_parser::json_parser::StarkProof::continuous_page_headers'}
    bad = []
    for p in R:
        fn = pdb.fns[p]
        if not fn.has_mir:
            continue
        for bi, t in fn.calls():
            if t['f'].get('name') in ('sort', 'sort_by', 'sort_by_key', 'sort_unstable', 'sort_unstable_by', 'sort_unstable_by_key', 'reverse', 'rev',
                                       'dedup', 'dedup_by', 'dedup_by_key', 'swap', 'rotate_left', 'rotate_right', 'retain', 'swap_remove') \
                    and p not in allowed and not p.startswith(tuple(a + '::' for a in allowed)):
                bad.append((p.split('::')[-1], t['f'].get('name'), t['line']))
    rep.ob('C19.order', 'stream-order', not bad, f'reordering calls outside segment sorting / page grouping: {bad}', '', 'parser')


def pattern_template(pdb, rep):
    """The line-selection regex of extract_annotations is assembled by format! from a literal template. Stone writes
    annotations as `<direction>: <path>: <description>(<value>)`: the template must terminate the substituted path with
    ": " (otherwise `.../Layer 1` also selects `.../Layer 10`), must open with the P->V direction tag and must capture the
    parenthesised value after the kind."""
    fn = pdb.fns.get('swiftness_proof_parser::annotations::extract::extract_annotations')
    if fn is None or fn.hir is None:
        rep.fail_closed('C19.select', 'extract_annotations not found')
        return
    templ = None
    for n in H.walk(fn.hir['value']):
        if n[0] == 'lit' and isinstance(n[1], dict) and 'bytes' in n[1] and '/cpu air/' in n[1]['bytes']:
            templ = n[1]['bytes']
    if templ is None:
        rep.undecided.append('C19.select: format template of the annotation regex not found as a literal; not decided')
        return
    pieces = [x for x in re.split('\x01+', templ) if x]
    # pieces: [before {prefix}, between {prefix} and {kind}, after {kind}]
    ok = len(pieces) == 3 and pieces[0].endswith('/cpu air/') and 'P->V' in pieces[0] and pieces[1].startswith(': ') \
        and pieces[2].startswith('\\(') and '(' in pieces[2][2:]
    rep.ob('C19.select', 'path-terminated', ok,
           f'annotation regex template pieces {pieces}: the substituted path must be followed by ": " and the kind by a captured "(...)"',
           fn.loc(), 'parser')


def derived_logs(pdb, rep):
    """The logarithms handed to the verifier (log_n_steps, log_trace_domain_size, log_last_layer_degree_bound, the
    commitment heights) are all produced by log2_if_power_of_2: it must yield a value only for a power of two, i.e.
    for x != 0 with x & (x - 1) == 0 (or through u32::is_power_of_two), so that a file stating 0 or a non-power is
    refused instead of being given a logarithm the file never stated."""
    import dataflow
    cands = [p for p in pdb.fns if p.endswith('::log2_if_power_of_2')]
    if len(cands) != 1:
        rep.fail_closed('C19.log2', f'log2_if_power_of_2 not found ({cands})')
        return
    fn = pdb.fns[cands[0]]
    fl = dataflow.Flow(pdb, fn)
    gs = [g for g in dataflow.own_guards(pdb, fn, fl) if g.covers == 'all']
    nz = any(g.rel == 'NE' and {frozenset(g.lhs), frozenset(g.rhs)} == {frozenset({'a1'}), frozenset({'lit:0'})} for g in gs) or \
        any(g.rel == 'LT' and set(g.lhs) == {'lit:0'} and set(g.rhs) == {'a1'} for g in gs)
    p2 = any(g.rel == 'EQ' and {frozenset(g.lhs), frozenset(g.rhs)} == {frozenset({'a1', 'lit:1', 'op:bitand', 'op:sub'}), frozenset({'lit:0'})}
             for g in gs)
    lib = any(g.rel == 'TRUE' and 'a1' in g.lhs and any('is_power_of_two' in x for x in g.lhs) for g in gs) or \
        any(g.rel == 'EQ' and any('count_ones' in x for x in g.lhs | g.rhs) and 'lit:1' in (g.lhs | g.rhs) for g in gs)
    ok = (nz and p2) or lib
    rep.ob('C19.log2', 'power-of-two-only', ok,
           'log2_if_power_of_2 returns Some only when x != 0 and x & (x - 1) == 0' if ok else
           f'log2_if_power_of_2 does not refuse every non-power of two: non-zero test {"present" if nz else "MISSING"}, '
           f'single-bit test {"present" if p2 else "MISSING"} (guards on the Some path: {[g.key() for g in gs][:4]})',
           fn.loc(), 'parser')
    # every use of the helper must treat None as an error
    uses = 0
    for p, f in pdb.fns.items():
        if not f.has_mir or f.compact:
            continue
        for bi, t in f.calls():
            if (t['f'].get('resolved') or '') == cands[0]:
                uses += 1
    rep.floor('C19.log2', 'uses of log2_if_power_of_2', uses, 3)


def conversion_fields(cdb, rep, cname, impls):
    """field-to-field: in every TransformTo impl, field k of the value built is computed from field k of the value
    converted and from nothing else of it (the parser's and the verifier's types carry the same field names); where a
    struct is built from an indexed source (`header[0]`, `header[1]`, ..) the i-th declared field takes element i."""
    n = 0
    for p in impls:
        fn = cdb.fns[p]
        if not fn.has_mir:
            continue
        short = p.split(' as ')[0].lstrip('<').split('::')[-1]
        for body in common.bodies(cdb, fn):
            if not body.has_mir or body.compact:
                continue
            fl = dataflow.Flow(cdb, body)
            for b in body.blocks:
                if b.get('cleanup'):
                    continue
                for st in b['stmts']:
                    if st['k'] != 'assign' or st['rv'].get('k') != 'agg' or st['rv'].get('agg') != 'adt' or not st['rv'].get('fields'):
                        continue
                    adt = st['rv'].get('adt', '')
                    if adt.startswith(('core::', 'alloc::')) or 'Error' in adt:
                        continue
                    names = st['rv']['fields']
                    idxs = []
                    for k, o in zip(names, st['rv']['ops']):
                        lv = fl.operand_leaves(o)
                        src = {re.sub(r'\[\*\]', '', x).split('.')[1] for x in lv if re.match(r'^a1\.', x)} if body is fn else set()
                        ix = sorted(x for x in lv if x.startswith('idx:'))
                        idxs.append(ix)
                        if body is fn and src and not k.isdigit():      # newtype wrappers (Page(..)) have no field name to match
                            n += 1
                            rep.ob('C19.fields', f'{short}.{k}', src == {k},
                                   f'{adt.split("::")[-1]}.{k} is built from field(s) {sorted(src)} of the parsed {short}' +
                                   ('' if src == {k} else f' (expected only `{k}`)'), body.loc(st['line']), cname)
                    # constant indices read off the def-use trees (place projections carry no idx: leaf)
                    T_ = exprtree.Trees(cdb, body)

                    def const_index(tr):
                        if isinstance(tr, tuple) and tr and tr[0] == 'proj' and isinstance(tr[2], tuple):
                            if tr[2][0] == 'idx' and isinstance(tr[2][1], tuple) and tr[2][1][0] == 'val':
                                return tr[2][1][1], tr[1]
                            if tr[2][0] == 'cidx':
                                return tr[2][1], tr[1]
                        return None
                    cis = [const_index(T_.operand(o)) for o in st['rv']['ops']]
                    for k, ci in zip(names, cis):
                        if ci is not None and 'to_u64_digits' in exprtree.show(ci[1]):
                            n += 1
                            rep.ob('C19.fields', f'{short}.{k}[digit]', ci[0] == 0,
                                   f'{adt.split("::")[-1]}.{k} takes 64-bit digit {ci[0]} of {exprtree.show(ci[1])[:60]} (the least significant digit is 0)',
                                   body.loc(st['line']), cname)
                    if len(names) >= 2 and all(ci is not None for ci in cis) and len({repr(ci[1]) for ci in cis}) == 1:
                        got = [str(ci[0]) for ci in cis]
                        want = [str(i) for i in range(len(names))]
                        n += 1
                        rep.ob('C19.fields', f'{short}/{adt.split("::")[-1]}[indexed]', got == want,
                               f'{adt.split("::")[-1]} fields {names} take elements {got} of their source (expected {want}: declaration order)',
                               body.loc(st['line']), cname)
    rep.floor('C19.fields', f'converted fields checked [{cname}]', n, 40)


def _sig(pdb, lv):
    import guardtable as GT
    out = set()
    for x in GT.norm_side(pdb, lv):
        if x.startswith(('op:', 'val:', 'lit:', 'idx:')):
            out.add(x)
        elif re.match(r'^a\d', x):
            out.add(fieldflow.canon(x))
        elif x.startswith('const:'):
            out.add(x.split('=')[0])
    return sorted(out)


def parser_signatures(pdb, R=None):
    """{function: {'<Adt>.<field>' | 'ret': signature}} over the parser functions reachable from parse()"""
    R = R or pdb.reach([PARSE])
    out = {}
    for p in sorted(R):
        fn = pdb.fns[p]
        if not fn.has_mir or fn.compact or not p.startswith(('swiftness_proof_parser::', '<swiftness_proof_parser::')):
            continue
        if '{closure' in p and False:
            continue
        fl = dataflow.Flow(pdb, fn)
        T_ = exprtree.Trees(pdb, fn)
        d = {}
        for b in fn.blocks:
            if b.get('cleanup'):
                continue
            for st in b['stmts']:
                if st['k'] == 'assign' and st['rv'].get('k') == 'agg' and st['rv'].get('agg') == 'adt' and st['rv'].get('fields'):
                    adt = st['rv'].get('adt', '')
                    if adt.startswith(('core::', 'alloc::', 'anyhow')):
                        continue
                    for k, o in zip(st['rv']['fields'], st['rv']['ops']):
                        key = f'{adt.split("::")[-1]}.{k}'
                        d[key] = sorted(set(d.get(key, [])) | set(_sig(pdb, fl.operand_leaves(o))))
                        ixs = sorted(_const_indices(T_.operand(o)))
                        if ixs:
                            d[key + '#indices'] = sorted(set(d.get(key + '#indices', [])) | set(ixs))
        d['ret'] = _sig(pdb, fl.ret_ok if cfgmod.returns_result(fn) else fl.leaves(0))
        # which comparisons the function makes (== versus != is invisible in the leaf sets)
        cm = [t['f'].get('name') for _, t in fn.calls() if t['f'].get('name') in ('eq', 'ne', 'lt', 'le', 'gt', 'ge')]
        cm += [st['rv']['op'].lower() for b in fn.blocks if not b.get('cleanup') for st in b['stmts']
               if st['k'] == 'assign' and st['rv'].get('k') == 'bin' and st['rv']['op'] in ('Eq', 'Ne', 'Lt', 'Le', 'Gt', 'Ge')]
        d['comparisons'] = sorted(cm)
        # how much arithmetic it does (a leaf set does not count: `len + 1` -> `len` next to another addition is invisible)
        ar = [t['f'].get('name').replace('_assign', '') for _, t in fn.calls()
              if t['f'].get('name') in ('add', 'sub', 'mul', 'div', 'rem', 'pow', 'shl', 'shr', 'add_assign', 'sub_assign', 'mul_assign',
                                        'checked_add', 'checked_sub', 'checked_mul', 'wrapping_add', 'wrapping_sub', 'field_div', 'floor_div')]
        ar += [st['rv']['op'].replace('WithOverflow', '').lower() for b in fn.blocks if not b.get('cleanup') for st in b['stmts']
               if st['k'] == 'assign' and st['rv'].get('k') == 'bin' and
               st['rv']['op'].replace('WithOverflow', '') in ('Add', 'Sub', 'Mul', 'Div', 'Rem', 'Shl', 'Shr', 'BitAnd', 'BitOr', 'BitXor')]
        d['arithmetic'] = sorted(ar)
        out[p] = d
    return out


# small, pure derivations (logarithms, layer sizes, constants tables, the z/alpha pick): compared exactly. The large
# data-mapping functions are compared end to end instead (parser_e2e), which does not depend on how they are written.
EXACT_FUNCTIONS = ('::stark_unsent_commitment', '::stark_witness', '::log2_if_power_of_2', '::log_trace_domain_size', '::log_eval_damain_size', '::layer_log_sizes',
                   '::extract_z_and_alpha', '::Layout::bytes_encode', '::Builtin::ordered')
EXACT_PREFIXES = ('swiftness_proof_parser::layout::LayoutConstants::',)
SELECTORS = ('::Builtin::sort_segments',)


def parser_mapping(pdb, rep, R):
    """what the parser derives from the file, two tiers.
    (a) exact, for the small pure derivations (log2 helper, log sizes, FRI layer sizes, per-layout constants, z/alpha
        pick): each struct field they build and their return value are computed from the same source fields, operations
        (with multiplicity), constants by value, constant indices and comparisons as confirmed on the pinned tree.
    (b) end to end, for everything else: in TryFrom<json StarkProof> for the parsed StarkProof (all callees inlined by the
        dataflow) no field of the result acquires a source field of the file, a constant or a constant index that it
        did not have on the pinned tree. Internal restructuring (helpers, loops versus pipelines) does not matter."""
    path = os.path.join(os.path.dirname(SAFE_PATH), 'c19_parser_signatures.json')
    if not os.path.exists(path):
        rep.fail_closed('C19.mapping', 'tables/c19_parser_signatures.json missing')
        return
    with open(path) as fh:
        tab = json.load(fh)
    want = tab['functions']
    cur = parser_signatures(pdb, R)
    n = 0
    from collections import Counter
    for p, d in sorted(want.items()):
        if not (p.endswith(EXACT_FUNCTIONS) or p.startswith(EXACT_PREFIXES)):
            continue
        c = cur.get(p)
        if c is None:
            continue        # function removed / renamed / inlined: covered by the end-to-end tier
        diffs = []
        for key, sig in sorted(d.items()):
            if key not in c:
                continue
            n += 1
            if c[key] != sig:
                ca, cb = Counter(map(str, c[key])), Counter(map(str, sig))
                diffs.append(f'{key}: now also {sorted((ca - cb).elements())[:4]}, no longer {sorted((cb - ca).elements())[:4]}')
        rep.ob('C19.mapping', p, not diffs, f'{p.split("::")[-1]}: {len(d)} derived values' + (' as confirmed' if not diffs else '; changed: ' + '; '.join(diffs[:3])),
               pdb.fns[p].loc(), 'parser')
    rep.floor('C19.mapping', 'derived values compared exactly', n, 40)
    # (a') selection predicates: which comparisons (== versus !=, < versus <=) the function and its closures make, as a
    # multiset over the whole source-level function (so moving the test between a closure and a loop does not matter)
    for p in sorted(want):
        if not p.endswith(SELECTORS) or '{closure' in p or p not in cur:
            continue
        def merged(tabl):
            out = []
            for q, d in tabl.items():
                if q == p or q.startswith(p + '::{closure'):
                    out += d.get('comparisons', [])
            return sorted(out)
        a, b = merged(cur), merged(want)
        rep.ob('C19.mapping', f'comparisons|{p}', a == b, f'{p.split("::")[-1]} (with its closures) compares with {a}' + ('' if a == b else f'; confirmed: {b}'),
               pdb.fns[p].loc(), 'parser')
    # (b)
    e2e = parser_e2e(pdb)
    wante = tab.get('e2e', {})
    if e2e is None:
        rep.fail_closed('C19.mapping', 'TryFrom<json StarkProof> for StarkProof not found')
        return
    m = 0
    for key, sig in sorted(wante.items()):
        c = e2e.get(key)
        if c is None:
            continue
        m += 1
        new = sorted(set(c) - set(sig))
        rep.ob('C19.mapping', f'e2e|{key}', not new,
               f'parsed field {key} is computed from {len(c)} sources' + ('' if not new else f'; new with respect to the confirmed tree: {new[:5]}'),
               '', 'parser')
    rep.floor('C19.mapping', 'result fields compared end to end', m, 60)


def parser_e2e(pdb):
    top = [p for p in pdb.fns if 'TryFrom<swiftness_proof_parser::json_parser::StarkProof>' in p and p.endswith('::try_from')]
    if len(top) != 1:
        return None
    import guardtable as GT
    fn = pdb.fns[top[0]]
    fl = dataflow.Flow(pdb, fn)
    agg = fl.agg.get(fl.find(0), {})
    out = {}
    for k, lv in agg.items():
        if k.count('.') > 4:
            continue
        sig = set()
        for x in GT.norm_side(pdb, lv):
            if re.match(r'^a1', x):
                sig.add(fieldflow.canon(x))
            elif x.startswith(('val:', 'idx:')):
                sig.add(x)
        out[k] = sorted(sig)
    return out


def _const_indices(t):
    out = []
    if isinstance(t, tuple):
        if t and t[0] == 'idx' and len(t) == 2 and isinstance(t[1], tuple) and t[1] and t[1][0] == 'val':
            out.append(t[1][1])
        if t and t[0] == 'cidx' and len(t) >= 2 and isinstance(t[1], int):
            out.append(t[1])
        for x in t[1:]:
            out += _const_indices(x)
    elif isinstance(t, dict):
        for x in t.values():
            out += _const_indices(x)
    return out


def annotation_kinds(pdb, rep):
    """Annotations::new: the field named x_y_z is extracted with Annotation::XYZ (the kind selects the line prefix), and
    with no other kind. Read off the def-use trees with helpers inlined, so a lookup helper does not hide the kind."""
    fn = pdb.fns.get('swiftness_proof_parser::annotations::Annotations::new')
    if fn is None or not fn.has_mir:
        rep.fail_closed('C19.kinds', 'Annotations::new not found')
        return
    T = exprtree.Trees(pdb, fn, inline=2)

    def variants(t, out):
        if isinstance(t, tuple):
            if t and t[0] == 'agg' and isinstance(t[1], str) and t[1].endswith('::Annotation'):
                out.append(t[2])
            for x in t[1:]:
                variants(x, out)
        elif isinstance(t, dict):
            for x in t.values():
                variants(x, out)
        return out
    n = 0
    for b in fn.blocks:
        for st in b['stmts']:
            if st['k'] == 'assign' and st['rv'].get('k') == 'agg' and st['rv'].get('adt', '').endswith('::Annotations'):
                for k, o in zip(st['rv']['fields'], st['rv']['ops']):
                    vs = sorted(set(variants(T.operand(o), [])))
                    if not vs:
                        continue        # z / alpha / the per-layer witnesses are built differently (C19.mapping)
                    n += 1
                    want = ''.join(w.capitalize() for w in k.split('_'))
                    rep.ob('C19.kinds', k, vs == [want], f'Annotations.{k} is extracted with {vs} (expected [{want}])', fn.loc(st['line']), 'parser')
    rep.floor('C19.kinds', 'annotation fields with a kind', n, 10)


def main_page_selection(pdb, rep):
    """main_page(): a public-memory cell enters the main page exactly when its page number is 0. Two ways of writing it
    are read: a `filter` closure whose result is `cell.page == 0`, or a loop in which every feasible path to the `push`
    has taken the test page == 0 as true (resp. page != 0 as false)."""
    cands = [p for p in pdb.fns if p.endswith('::StarkProof::main_page')]
    if len(cands) != 1:
        return
    fn = pdb.fns[cands[0]]

    def is_page(t):
        return isinstance(t, tuple) and t[0] == 'proj' and t[2] == 'page'
    ok, how = False, 'no selection on the page number found'
    T = exprtree.Trees(pdb, fn)
    for bi, t in fn.calls():
        if t['f'].get('name') == 'filter' and len(t['args']) == 2:
            cl = T.operand(t['args'][1])
            if isinstance(cl, tuple) and cl[0] == 'closure' and cl[1] in pdb.fns:
                body = exprtree.Trees(pdb, pdb.fns[cl[1]]).local(0)
                if isinstance(body, tuple) and len(body) == 3 and body[0] in ('Eq', 'eq') and ('val', 0) in body[1:] and any(is_page(x) for x in body[1:]):
                    ok, how = True, 'filter(|m| m.page == 0)'
                else:
                    how = f'filter closure returns {exprtree.show(body)[:60]}'
    if not ok:
        pushes = [bi for bi, t in fn.calls() if t['f'].get('name') == 'push']
        for pb in pushes:
            ps = exprtree.paths_to(fn, pb, limit=400) or []
            feas = [pt for pt in (exprtree.PathTrees(pdb, fn, pth) for pth in ps) if pt.consistent()]

            def selected(pt):
                for c, v in pt.decisions():
                    if isinstance(c, tuple) and len(c) == 3 and ('val', 0) in c[1:] and any(is_page(x) for x in c[1:]):
                        if (c[0] in ('Eq', 'eq') and v != '0') or (c[0] in ('Ne', 'ne') and v == '0'):
                            return True
                return False
            if feas and all(selected(pt) for pt in feas):
                ok, how = True, f'loop: every path to the push has page == 0 ({len(feas)} paths)'
            elif feas:
                how = 'a path reaches the push without page == 0'
    rep.ob('C19.mapping', 'main-page-selection', ok, f'main_page keeps the cells of page 0: {how}', fn.loc(), 'parser')
