"""C10 — query indices are in range, strictly increasing, and map to the right points."""
import common
import dataflow
import exprtree
import literals
from common import *
from facts import op_place
from literals import P

EXPLANATION = (
    '(a) Typestate of the vector returned by generate_queries: on the path to the return the vector must pass through a '
    'sort* call and then a dedup* call (dominance: sort dominates dedup dominates the return) — sorted + deduplicated = '
    'strictly increasing; (b) range: each sample is the remainder of a div_rem whose divisor derives from '
    'query_upper_bound only (def-use tree of the sampling closure), and verify passes eval_domain_size for it; (c) '
    'count: the sampling range is 0..n_samples and verify passes config.n_queries; (d) point map: queries_to_points '
    'pushes FIELD_GENERATOR * eval_generator^reverse_bits(query * 2^(64 - log_eval_domain_size)) with a 64-bit '
    'reverse_bits, FIELD_GENERATOR literals are 3 in queries.rs and domains.rs; (e) determinism is C08-d.')
NOT_DECIDED = ['agreement with the index set the prover logged (needs an execution)',
               'the bit-reversal arithmetic for domain sizes above 2^64 (rejected by an assertion)']
TRUSTED = ['rustc nightly MIR', 'slice::sort / Vec::dedup semantics (std)']

SORTS = {'sort', 'sort_unstable', 'sort_by', 'sort_by_key', 'sort_unstable_by', 'sort_unstable_by_key', 'sort_by_cached_key'}
DEDUPS = {'dedup', 'dedup_by', 'dedup_by_key'}

THOROUGH_MAIN_CONFIGS = ['b248s6', 'nostd']


def run(ctx, rep):
    db = ctx.main
    cfg = db.config
    # the modulus and the points: the evaluation domain built by StarkDomains::new is 2^(t+c) with a generator of that
    # order for every t, c (closed forms of C12, evaluation-domain half)
    import props.c12 as c12
    items, fields = c12.shape(db)
    dn = db.fn(common.DOMAINS_NEW, 'C10')
    if items is None:
        rep.ob('C10.domain', 'closed-forms', False, f'StarkDomains::new is not one reconstructible struct literal: {fields}', dn.loc(), cfg)
    else:
        for name, ok, detail in items:
            if name in ('log_eval_domain_size', 'eval_domain_size', 'eval_generator'):
                rep.ob('C10.domain', name, ok, detail, dn.loc(), cfg)
    fn = db.fn(GENERATE_QUERIES, 'C10')
    fl = dataflow.Flow(db, fn)
    dom = fn.dominators()
    rets = fn.return_blocks()
    r0 = fl.find(0)
    # the returned local(s)
    ret_classes = {r0}
    for b in fn.blocks:
        for s in b['stmts']:
            if s['k'] == 'assign' and s['place']['l'] == 0 and not s['place']['p'] and s['rv']['k'] == 'use':
                pl = op_place(s['rv']['a'])
                if pl is not None:
                    ret_classes.add(fl.find(pl['l']))
    events = []
    for bi, t in fn.calls():
        nm = t['f'].get('name')
        if nm in SORTS | DEDUPS and t['args']:
            pl = op_place(t['args'][0])
            if pl is not None and fl.find(pl['l']) in ret_classes:
                events.append((bi, nm))
    sorts = [b for b, n in events if n in SORTS]
    dedups = [b for b, n in events if n in DEDUPS]
    btree = any('BTreeSet' in (t['f'].get('full') or '') for _, t in fn.calls())
    ok_sort = btree or any(all(s in dom.get(r, ()) for r in rets) for s in sorts)
    ok_dedup = btree or any(any(s in dom.get(d, ()) and s != d for s in sorts) and all(d in dom.get(r, ()) for r in rets) for d in dedups)
    rep.ob('C10.typestate', 'sorted', ok_sort, f'the returned query vector passes through sort on every path (sort calls at blocks {sorts})',
           fn.loc(), cfg)
    rep.ob('C10.typestate', 'deduplicated', ok_dedup,
           'the returned query vector must pass through dedup after sort on every path (strictly increasing, no repeats): '
           f'sort at {sorts}, dedup at {dedups}; two samples can collide modulo the domain size', fn.loc(), cfg, sample=True)
    # ---- range: every sample is a remainder modulo query_upper_bound of the low 128 bits of a squeeze ----
    ret = fl.leaves(0)
    need = {
        'upper bound (parameter 3)': lambda x: x == 'a3',
        'DIVISOR constant (low 128 bits)': lambda x: x.startswith('const:swiftness_stark::queries::DIVISOR'),
        'div_rem': lambda x: x == 'op:div_rem',
        'a transcript squeeze': lambda x: x.startswith('call:' + T_SQUEEZE) or x.startswith('call:' + T_SQUEEZE_N),
    }
    missing = [k for k, pr in need.items() if not any(pr(x) for x in ret)]
    rep.ob('C10.range', 'sample-dependencies', not missing,
           f'returned samples must derive from a squeeze reduced by DIVISOR and by query_upper_bound through div_rem; missing: {missing}',
           fn.loc(), cfg)
    # precise form when the sampling closure is recognisable: the LAST operation is the remainder by the upper bound
    decided = False
    for cp in db.closure_creations(fn):
        cf = db.fns[cp]
        if not any(t['f'].get('name') == 'div_rem' for _, t in cf.calls()):
            continue
        Tc = exprtree.Trees(db, cf)
        t = Tc.local(0)
        if isinstance(t, tuple) and t[0] == 'proj' and isinstance(t[1], tuple) and t[1][0] == 'div_rem':
            decided = True
            sd = exprtree.show(t[1][2])
            # the divisor is a captured variable (a1.<k>) or a closure parameter; find which capture it is
            cap_ok = False
            m = __import__('re').match(r'^\(?\*?a1\.(\d+)\)?$', sd.replace('(', '').replace(')', ''))
            T = exprtree.Trees(db, fn)
            for b in fn.blocks:
                for st in b['stmts']:
                    if st['k'] == 'assign' and st['rv'].get('k') == 'agg' and st['rv'].get('closure') == cp and m:
                        k = int(m.group(1))
                        if k < len(st['rv']['ops']):
                            cap_ok = T.operand(st['rv']['ops'][k]) == ('arg', 3)
            rep.ob('C10.range', 'last-op-is-remainder-by-upper-bound', t[2] == '1' and cap_ok,
                   f'sample = {exprtree.show(t)[:160]}; divisor resolves to query_upper_bound: {cap_ok}', cf.loc(), cfg)
    if not decided:
        rep.undecided.append('C10.range: sampling expression not in a recognised closure form; only its dependencies were checked')
    # ---- count: the number of samples is driven by n_samples only ----
    its = [g for g in dataflow.effective_guards(db, GENERATE_QUERIES, sinks='iter') if (getattr(g, 'kind', '') or '').startswith('iter')
           and g.kind != 'iter:alloc']
    drivers = [g for g in its if any(x == 'a2' for x in g.lhs)]
    others = [g for g in its if g.root in ('range', 'cond') and any(x.startswith('a') and x != 'a2' and not x.startswith('a1') for x in g.lhs)]
    rep.ob('C10.count', 'driven-by-n_samples', bool(drivers) and not others,
           f'{len(drivers)} iteration site(s) bounded by n_samples; sites bounded by another numeric parameter: {[(g.fn.split("::")[-1], sorted(g.lhs)[:3]) for g in others]}',
           fn.loc(), cfg)
    # the driver: samples collected from the mapped range
    v = db.fn(VERIFY, 'C10')
    # the function, among those verify is made of, that calls generate_queries (verify itself or a stage of it)
    lay_ = db.layouts()
    callers = [db.fns[p] for p in db.reach([VERIFY], {'Layout': sorted(lay_.values())[0]})
               if db.fns[p].has_mir and not db.fns[p].compact and
               any(t['f'].get('resolved') == GENERATE_QUERIES for _, t in db.fns[p].calls())]
    if len(callers) == 1:
        v = callers[0]
    Tv = exprtree.Trees(db, v)
    okv = False
    shown = ''
    for bi, t in v.calls():
        if t['f'].get('resolved') == GENERATE_QUERIES:
            a = [exprtree.show(Tv.operand(x)) for x in t['args']]
            shown = str(a)
            okv = a[1].endswith('config.n_queries') and a[2].endswith('.eval_domain_size') and 'StarkDomains::new' in a[2].replace('new(', 'StarkDomains::new(') or \
                (a[1].endswith('config.n_queries') and a[2].endswith('eval_domain_size'))
    rep.ob('C10.count', 'verify-arguments', okv, f'verify calls generate_queries with {shown[:200]}', v.loc(), cfg)
    # ---------- point map ----------
    q = db.fn(QUERIES_TO_POINTS, 'C10')
    pt, form = common.elementwise(db, q)
    s = exprtree.show(pt) if pt else form
    ok = False
    if pt and pt[0] == 'mul':
        parts = [pt[1], pt[2]]
        three = [x for x in parts if x == ('val', 3)]
        pw = [x for x in parts if isinstance(x, tuple) and x[0] in ('pow', 'pow_felt')]
        if three and pw:
            base, ex = pw[0][1], pw[0][2]
            sb = exprtree.show(base)
            se = exprtree.show(ex)
            ok = sb == 'a2.eval_generator' and se.startswith('reverse_bits(mul(') and 'pow_felt(2, sub(64, a2.log_eval_domain_size))' in se \
                and 'ELEM(a1)' in se
    rep.ob('C10.points', 'formula', ok, f'point pushed: {s[:220]}', q.loc(), cfg, sample=True)
    # reverse_bits must be the 64-bit one
    rb = [t for b_ in common.bodies(db, q) for _, t in b_.calls() if t['f'].get('name') == 'reverse_bits']
    rep.ob('C10.points', 'reverse_bits-u64', bool(rb) and all('u64' in (t['f'].get('full') or '') for t in rb),
           f'reverse_bits callee: {[t["f"].get("full") for t in rb]}', q.loc(), cfg)
    for cpath in ('swiftness_stark::queries::FIELD_GENERATOR', 'swiftness_air::domains::FIELD_GENERATOR'):
        v_ = literals.const_value(db, cpath)
        rep.ob('C10.points', cpath.split('::')[1] + '/FIELD_GENERATOR=3', v_ == 3, f'{cpath} = {v_}', '', cfg)
    md = literals.const_value(db, 'swiftness_stark::queries::MAX_DOMAIN_SIZE')
    dv = literals.const_value(db, 'swiftness_stark::queries::DIVISOR')
    rep.ob('C10.points', 'MAX_DOMAIN_SIZE=64', md == 64, f'MAX_DOMAIN_SIZE = {md}', '', cfg)
    rep.ob('C10.range', 'DIVISOR=2^128', dv == 2 ** 128, f'DIVISOR = {hex(dv) if dv else dv} (low 128 bits are kept)', '', cfg)
