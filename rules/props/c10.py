"""C10 — query indices are in range, strictly increasing, and map to the right points."""
import common
import dataflow
import exprtree
import literals
from common import *
from facts import op_place
from literals import P

EXPLANATION = (
    '(a) Typestate of the vector returned by generate_queries: on the path to the return the vector must pass through a '
    'sort* call and then a dedup* call (dominance: sort dominates dedup dominates the return) — sorted + deduplicated = '
    'strictly increasing; (b) range: each sample is the remainder of a div_rem whose divisor derives from '
    'query_upper_bound only (def-use tree of the sampling closure), and verify passes eval_domain_size for it; (c) '
    'count: the sampling range is 0..n_samples and verify passes config.n_queries; (d) point map: queries_to_points '
    'pushes FIELD_GENERATOR * eval_generator^reverse_bits(query * 2^(64 - log_eval_domain_size)) with a 64-bit '
    'reverse_bits, FIELD_GENERATOR literals are 3 in queries.rs and domains.rs; (e) determinism is C08-d.')
NOT_DECIDED = ['agreement with the index set the prover logged (needs an execution)',
               'the bit-reversal arithmetic for domain sizes above 2^64 (rejected by an assertion)']
TRUSTED = ['rustc nightly MIR', 'slice::sort / Vec::dedup semantics (std)']

SORTS = {'sort', 'sort_unstable', 'sort_by', 'sort_by_key', 'sort_unstable_by', 'sort_unstable_by_key', 'sort_by_cached_key'}
DEDUPS = {'dedup', 'dedup_by', 'dedup_by_key'}


def run(ctx, rep):
    db = ctx.main
    cfg = db.config
    fn = db.fn(GENERATE_QUERIES, 'C10')
    fl = dataflow.Flow(db, fn)
    dom = fn.dominators()
    rets = fn.return_blocks()
    r0 = fl.find(0)
    # the returned local(s)
    ret_classes = {r0}
    for b in fn.blocks:
        for s in b['stmts']:
            if s['k'] == 'assign' and s['place']['l'] == 0 and not s['place']['p'] and s['rv']['k'] == 'use':
                pl = op_place(s['rv']['a'])
                if pl is not None:
                    ret_classes.add(fl.find(pl['l']))
    events = []
    for bi, t in fn.calls():
        nm = t['f'].get('name')
        if nm in SORTS | DEDUPS and t['args']:
            pl = op_place(t['args'][0])
            if pl is not None and fl.find(pl['l']) in ret_classes:
                events.append((bi, nm))
    sorts = [b for b, n in events if n in SORTS]
    dedups = [b for b, n in events if n in DEDUPS]
    btree = any('BTreeSet' in (t['f'].get('full') or '') for _, t in fn.calls())
    ok_sort = btree or any(all(s in dom.get(r, ()) for r in rets) for s in sorts)
    ok_dedup = btree or any(any(s in dom.get(d, ()) and s != d for s in sorts) and all(d in dom.get(r, ()) for r in rets) for d in dedups)
    rep.ob('C10.typestate', 'sorted', ok_sort, f'the returned query vector passes through sort on every path (sort calls at blocks {sorts})',
           fn.loc(), cfg)
    rep.ob('C10.typestate', 'deduplicated', ok_dedup,
           'the returned query vector must pass through dedup after sort on every path (strictly increasing, no repeats): '
           f'sort at {sorts}, dedup at {dedups}; two samples can collide modulo the domain size', fn.loc(), cfg, sample=True)
    # sampling closure
    closures = db.closure_creations(fn)
    ok_range = ok_count = False
    detail = ''
    for cp in closures:
        cf = db.fns[cp]
        T = exprtree.Trees(db, cf)
        t = T.local(0)
        detail = exprtree.show(t)[:200]
        # proj(div_rem(proj(div_rem(squeeze, DIVISOR), 1), <a1.1>), 1)
        if t[0] == 'proj' and t[2] == '1' and isinstance(t[1], tuple) and t[1][0] == 'div_rem':
            inner, divisor = t[1][1], t[1][2]
            sd = exprtree.show(divisor)
            ok_range = sd.replace('(', '').replace(')', '') in ('a1.1', '*a1.1') or sd == 'a1.1'
            si = exprtree.show(inner)
            ok_range = ok_range and 'random_felt_to_prover' in si and 'div_rem' in si
    rep.ob('C10.range', 'sample=remainder-mod-upper-bound', ok_range, f'sample expression: {detail}', fn.loc(), cfg)
    # the closure captures (&mut transcript, &query_upper_bound): capture .1 must be parameter 3
    cap_ok = False
    T = exprtree.Trees(db, fn)
    for b in fn.blocks:
        for s in b['stmts']:
            if s['k'] == 'assign' and s['rv'].get('k') == 'agg' and s['rv'].get('agg') == 'closure':
                ops = [T.operand(o) for o in s['rv']['ops']]
                cap_ok = len(ops) == 2 and ops[0] == ('arg', 1) and ops[1] == ('arg', 3)
    rep.ob('C10.range', 'captures', cap_ok, 'the sampling closure captures (transcript, query_upper_bound)', fn.loc(), cfg)
    rng = None
    for b in fn.blocks:
        for s in b['stmts']:
            if s['k'] == 'assign' and s['rv'].get('k') == 'agg' and s['rv'].get('adt') == 'core::ops::range::Range':
                rng = [T.operand(o) for o in s['rv']['ops']]
    ok_count = rng is not None and rng[0] == ('val', 0) and rng[1] == ('arg', 2)
    rep.ob('C10.count', 'range=0..n_samples', ok_count, f'sampling range: {[exprtree.show(x) for x in rng] if rng else None}', fn.loc(), cfg)
    # the driver: samples collected from the mapped range
    v = db.fn(VERIFY, 'C10')
    Tv = exprtree.Trees(db, v)
    okv = False
    shown = ''
    for bi, t in v.calls():
        if t['f'].get('resolved') == GENERATE_QUERIES:
            a = [exprtree.show(Tv.operand(x)) for x in t['args']]
            shown = str(a)
            okv = a[1].endswith('config.n_queries') and a[2].endswith('.eval_domain_size') and 'StarkDomains::new' in a[2].replace('new(', 'StarkDomains::new(') or \
                (a[1].endswith('config.n_queries') and a[2].endswith('eval_domain_size'))
    rep.ob('C10.count', 'verify-arguments', okv, f'verify calls generate_queries with {shown[:200]}', v.loc(), cfg)
    # ---------- point map ----------
    q = db.fn(QUERIES_TO_POINTS, 'C10')
    Tq = exprtree.Trees(db, q)
    pt = None
    for bi, t in q.calls():
        if t['f'].get('name') == 'push':
            pt = Tq.operand(t['args'][1])
    s = exprtree.show(pt) if pt else ''
    ok = False
    if pt and pt[0] == 'mul':
        parts = [pt[1], pt[2]]
        three = [x for x in parts if x == ('val', 3)]
        pw = [x for x in parts if isinstance(x, tuple) and x[0] in ('pow', 'pow_felt')]
        if three and pw:
            base, ex = pw[0][1], pw[0][2]
            sb = exprtree.show(base)
            se = exprtree.show(ex)
            ok = sb == 'a2.eval_generator' and se.startswith('reverse_bits(mul(') and 'pow_felt(2, sub(64, a2.log_eval_domain_size))' in se \
                and 'a1' in se
    rep.ob('C10.points', 'formula', ok, f'point pushed: {s[:220]}', q.loc(), cfg, sample=True)
    # reverse_bits must be the 64-bit one
    rb = [t for _, t in q.calls() if t['f'].get('name') == 'reverse_bits']
    rep.ob('C10.points', 'reverse_bits-u64', bool(rb) and all('u64' in (t['f'].get('full') or '') for t in rb),
           f'reverse_bits callee: {[t["f"].get("full") for t in rb]}', q.loc(), cfg)
    for cpath in ('swiftness_stark::queries::FIELD_GENERATOR', 'swiftness_air::domains::FIELD_GENERATOR'):
        v_ = literals.const_value(db, cpath)
        rep.ob('C10.points', cpath.split('::')[1] + '/FIELD_GENERATOR=3', v_ == 3, f'{cpath} = {v_}', '', cfg)
    md = literals.const_value(db, 'swiftness_stark::queries::MAX_DOMAIN_SIZE')
    dv = literals.const_value(db, 'swiftness_stark::queries::DIVISOR')
    rep.ob('C10.points', 'MAX_DOMAIN_SIZE=64', md == 64, f'MAX_DOMAIN_SIZE = {md}', '', cfg)
    rep.ob('C10.range', 'DIVISOR=2^128', dv == 2 ** 128, f'DIVISOR = {hex(dv) if dv else dv} (low 128 bits are kept)', '', cfg)
