"""C13 — the public-input digest binds every field of the public input."""
import common
import dataflow
import fieldflow
import hirlib as H
from common import *

EXPLANATION = (
    'Leaf-set dataflow restricted to PublicInput::get_hash (closures and local callees inlined), under a Stone 5 and a '
    'Stone 6 configuration: the returned value (a Poseidon hash of the header vector) must depend on every field the '
    'statement lists — log_n_steps, range_check_min/max, layout, every segment begin_addr/stop_ptr, padding address and '
    'value, every main-page address and value, the main-page length, every continuous-page header start_address/size/hash, '
    'the header count, the dynamic parameters, and under stone6 the friendly-layer count (and NOT under stone5, matching '
    'the Stone 5 preimage). Chaining: each Pedersen call of the main-page loop takes the running accumulator as its first '
    'argument (loop-carried), and the length enters both the chain terminator and the header. Table agreement for the '
    'dynamic parameters: From<DynamicParams> for Vec<usize> lists field i of the struct at position i for all 340 fields '
    '(HIR array vs ADT field order) and From<Vec<usize>> reads index i into field i with a length assertion of 340, so '
    'every dynamic parameter is hashed at its own position.')
NOT_DECIDED = ['collision resistance of Pedersen / Poseidon', 'agreement with the prover\'s first challenges on recorded proofs']
TRUSTED = ['rustc nightly MIR/HIR and ADT tables', 'starknet-crypto hash functions']

DP = 'swiftness_air::dynamic::DynamicParams'


def run(ctx, rep):
    for cfg in ctx.stone_configs():
        db = ctx.db(cfg)
        stone6 = 'stone6' in db.features.get('swiftness_air', [])
        fn = db.fn(GET_HASH, 'C13')
        fl = dataflow.Flow(db, fn)
        ret = fl.leaves(0)
        c = {fieldflow.canon(x) for x in ret if x.startswith('a')}
        lens = {x for x in ret if x.startswith('len(')}
        need = ['a1.log_n_steps', 'a1.range_check_min', 'a1.range_check_max', 'a1.layout', 'a1.dynamic_params',
                'a1.segments.begin_addr', 'a1.segments.stop_ptr', 'a1.padding_addr', 'a1.padding_value',
                'a1.main_page.address', 'a1.main_page.value', 'a1.continuous_page_headers.start_address',
                'a1.continuous_page_headers.size', 'a1.continuous_page_headers.hash']
        for f in need:
            ok = any(x == f or x.startswith(f + '.') for x in c)
            rep.ob('C13.flow', f, ok, f'get_hash result must depend on {f}' + ('' if ok else f'; digest leaves: {sorted(c)[:10]}'),
                   fn.loc(), cfg, sample=(f == 'a1.padding_value'))
        for f in ('len(a1.main_page)', 'len(a1.continuous_page_headers)'):
            ok = any(fieldflow.canon(x) == fieldflow.canon(f) for x in lens)
            rep.ob('C13.flow', f, ok, f'get_hash result must depend on {f}', fn.loc(), cfg)
        has_n = 'a2' in ret
        rep.ob('C13.flow', 'friendly-layer-count', has_n == stone6,
               f'n_verifier_friendly_commitment_layers is{"" if has_n else " not"} hashed; Stone {"6" if stone6 else "5"} requires it to be '
               f'{"included" if stone6 else "absent"}', fn.loc(), cfg)
        # chaining + length in the chain terminator
        # the chain may be written as a loop in get_hash or as a fold over the main page (closure accumulator)
        fold_closures = set()
        for body in common.bodies(db, fn, helpers=2):
            if not body.has_mir or body.compact:
                continue
            bf = fl if body is fn else dataflow.Flow(db, body)
            for bi, t in body.calls():
                if t['f'].get('name') in ('fold', 'try_fold') and len(t.get('args', [])) == 3:
                    for x in bf.operand_leaves(t['args'][2]):
                        if x.startswith('closure:'):
                            fold_closures.add(x[len('closure:'):])
        ped = []
        acc_ok = True
        len_in_chain = False
        for body in common.bodies(db, fn, helpers=2):
            if not body.has_mir or body.compact:
                continue
            bf = fl if body is fn else dataflow.Flow(db, body)
            for bi, t in body.calls():
                if not (t['f'].get('resolved') or '').endswith('pedersen_hash::pedersen_hash'):
                    continue
                ped.append((bi, t))
                a0 = bf.operand_leaves(t['args'][0])
                a1 = bf.operand_leaves(t['args'][1])
                carried = any(x.startswith('call:starknet_crypto::pedersen_hash::pedersen_hash') for x in a0) or \
                    any(x.startswith('call:core::iter::traits::iterator::Iterator::fold') for x in a0) or \
                    (body.path in fold_closures and 'a2' in a0)
                if not carried:
                    acc_ok = False
                # in get_hash itself the length is len(a1.main_page); inside a helper it is the length of the helper's own
                # page parameter (that it is the main page's length in the end is C13.flow's len(a1.main_page) obligation)
                if any(x.startswith('len(a1.main_page') for x in a1) or (body is not fn and any(x.startswith('len(a') for x in a1)):
                    len_in_chain = True
        acc_ok = acc_ok and bool(ped)
        rep.ob('C13.chain', 'accumulator-loop-carried', acc_ok and len(ped) >= 2,
               f'{len(ped)} Pedersen calls; each takes the running hash as first argument (order and count of cells are bound)', fn.loc(), cfg)
        rep.ob('C13.chain', 'length-terminates-chain', len_in_chain, 'the main-page length is hashed into the Pedersen chain', fn.loc(), cfg)
        # the header receives the chain result and the lengths by separate pushes
        pushes = []
        for bi, t in fn.calls():
            if t['f'].get('name') in ('push', 'extend') and len(t.get('args', [])) > 1:
                lv = fl.operand_leaves(t['args'][1])
                for a in list(lv):
                    lv |= fl._closure_effect({a}, [fl.operand_leaves(x) for x in t['args']], bi) if a.startswith('closure:') else set()
                pushes.append(lv)
        def pushed(pred):
            return any(any(pred(x) for x in lv) for lv in pushes)
        rep.ob('C13.chain', 'header-has-main-page-hash', pushed(lambda x: x.startswith('call:starknet_crypto::pedersen_hash')),
               'the Pedersen chain result is pushed into the Poseidon header', fn.loc(), cfg)
        rep.ob('C13.chain', 'header-has-lengths', pushed(lambda x: x.startswith('len(a1.main_page')) and
               pushed(lambda x: x.startswith('len(a1.continuous_page_headers')),
               'the main-page length and the page count are pushed into the Poseidon header', fn.loc(), cfg)
        dynamic_tables(db, rep)
        no_lossy_casts(db, rep, fn)
        unconditional(db, rep, fn)
    rep.note('configs', ctx.stone_configs())


def dynamic_tables(db, rep):
    cfg = db.config
    adt = db.adts.get(DP)
    if adt is None:
        rep.fail_closed('C13.dynamic', 'DynamicParams ADT not found')
        return
    fields = [f['name'] for f in adt['variants'][0]['fields']]
    rep.floor('C13.dynamic', 'DynamicParams fields', len(fields), 340)
    # the length the Vec<usize> -> DynamicParams conversion insists on is the number of fields
    import literals
    ndp = literals.const_value(db, 'swiftness_air::layout::dynamic::N_DYNAMIC_PARAMS')
    if ndp is not None:
        rep.ob('C13.dynamic', 'N_DYNAMIC_PARAMS', ndp == len(fields), f'N_DYNAMIC_PARAMS = {ndp}; DynamicParams has {len(fields)} fields', '', cfg)
    to_vec = [f for p, f in db.fns.items() if 'From<swiftness_air::dynamic::DynamicParams> for alloc::vec::Vec<usize>' in p and p.endswith('::from')]
    from_vec = [f for p, f in db.fns.items() if p.startswith('<swiftness_air::dynamic::DynamicParams as core::convert::From<alloc::vec::Vec<usize>') and p.endswith('::from')]
    if len(to_vec) != 1 or len(from_vec) != 1:
        rep.fail_closed('C13.dynamic', f'conversion impls not found ({len(to_vec)}, {len(from_vec)})')
        return
    tv, fv = to_vec[0], from_vec[0]
    pb = H.param_binding(tv.hir, 0)
    arr = None
    for n in H.walk(tv.hir['value']):
        if n[0] == 'array' and len(n) > 100:
            arr = n
    seq = []
    if arr:
        for e in arr[1:]:
            e = H.strip(e)
            if H.tag(e) == 'field' and H.path_of(H.strip(e[1])) == pb:
                seq.append(e[2])
            else:
                seq.append(None)
    for i, name in enumerate(fields):
        got = seq[i] if i < len(seq) else None
        rep.ob('C13.dynamic', f'to_vec[{i}]', got == name,
               f'position {i} of the flattened dynamic parameters is {got}, expected field {name}', tv.loc(), cfg, sample=(i == 0))
    rep.ob('C13.dynamic', 'to_vec/length', len(seq) == len(fields), f'{len(seq)} entries for {len(fields)} fields', tv.loc(), cfg)
    # from_vec: struct literal with field name := vec[i]
    vb = H.param_binding(fv.hir, 0)
    st = None
    for n in H.walk(fv.hir['value']):
        if n[0] == 'struct' and len(n) > 100:
            st = n
    got = {}
    if st:
        for fe in st[2:]:
            if isinstance(fe, list) and len(fe) == 2 and isinstance(fe[0], str):
                e = H.strip(fe[1])
                idx = None
                if H.tag(e) == 'idx' and H.path_of(H.strip(e[1])) == vb:
                    idx = H.lit_int(e[2])
                got[fe[0]] = idx
    bad = [(n, got.get(n)) for i, n in enumerate(fields) if got.get(n) != i]
    rep.ob('C13.dynamic', 'from_vec/positions', not bad and len(got) == len(fields),
           f'From<Vec<usize>> reads index i into field i for all {len(fields)} fields; mismatches: {bad[:4]}', fv.loc(), cfg)
    lits = [H.lit_int(n) for n in H.walk(fv.hir['value']) if n[0] == 'lit' and H.lit_int(n) is not None]
    rep.ob('C13.dynamic', 'from_vec/length-assert', len(fields) in lits, f'length assertion constant present: {len(fields) in lits}', fv.loc(), cfg)


WIDTH = {'u8': 8, 'u16': 16, 'u32': 32, 'u64': 64, 'u128': 128, 'usize': 64, 'i8': 8, 'i16': 16, 'i32': 32, 'i64': 64, 'i128': 128, 'isize': 64}


def no_lossy_casts(db, rep, fn):
    """every value entering the digest keeps all its bits: no narrowing / sign-changing integer cast in get_hash, its
    closures or the DynamicParams flattening"""
    scope = [fn.path] + db.closures_of(fn.path) + [p for p in db.fns if 'From<swiftness_air::dynamic::DynamicParams> for alloc::vec::Vec<usize>' in p]
    bad = []
    n = 0
    for p in scope:
        f = db.fns.get(p)
        if f is None or not f.has_mir:
            continue
        for b in f.blocks:
            if b.get('cleanup'):
                continue
            for s in b['stmts']:
                if s['k'] == 'assign' and s['rv']['k'] == 'cast' and s['rv']['ck'].split('(')[0] in ('IntToInt', 'FloatToInt'):
                    n += 1
                    a, t = s['rv']['from'], s['rv']['to']
                    if s['rv']['ck'].startswith('FloatToInt') or (a in WIDTH and t in WIDTH and (WIDTH[t] < WIDTH[a] or (a[0] != t[0] and not (a[0] == 'u' and WIDTH[t] > WIDTH[a])))):
                        bad.append((p.split('::')[-1], f'{a}->{t}', s['line']))
    rep.ob('C13.width', 'no-narrowing-cast', not bad,
           f'{n} integer casts in the digest computation; lossy ones: {bad} (a truncated field no longer binds its high bits)', fn.loc(), db.config)


# operations that pass every element of what they are given on to their result, in order, whatever the values are
STRUCTURE_PRESERVING = {
    'iter', 'into_iter', 'next', 'map', 'flat_map', 'flatten', 'chain', 'once', 'copied', 'cloned', 'enumerate', 'zip', 'fold',
    'for_each', 'collect', 'from_iter', 'extend', 'extend_from_slice', 'push', 'len', 'clone', 'from', 'into', 'deref', 'as_slice',
    'as_ref', 'borrow', 'to_vec', 'into_vec', 'new', 'with_capacity', 'reserve', 'new_uninit', 'box_assume_init_into_vec_unsafe',
    'mul', 'add', 'index', 'pedersen_hash', 'poseidon_hash_many', 'write', 'into_boxed_slice', 'size_hint',
}


def unconditional(db, rep, fn, rule='C13.unconditional'):
    """Every field is bound on EVERY evaluation, not only on some: between the public input and the two hash calls,
    get_hash (with its closures and the same-crate helpers it calls) may use only operations that pass on every
    element they are given, and may branch only on the end of an iteration and on whether dynamic parameters exist.
    A filter, a lookup with a fallback, a truncation or a value-dependent branch would let some inputs share a digest."""
    import exprtree
    cfg = db.config
    bs = common.bodies(db, fn, helpers=2)
    inset = {b.path for b in bs}
    bad = []
    n_calls = n_sw = 0
    for b in bs:
        if not b.has_mir and ' as core::clone::Clone>::clone' in b.path:
            continue    # derived Clone (derive bodies are not dumped): a field-by-field copy
        if not b.has_mir or b.compact:
            bad.append((b, 0, f'body of {b.path} is not available'))
            continue
        T = exprtree.Trees(db, b)
        for bi, t in b.calls():
            n_calls += 1
            f = t['f']
            local = f.get('resolved') if f.get('is_resolved') else None
            if local in db.fns:
                if local not in inset:
                    bad.append((b, t['line'], f'call of {local} (not analysed: deeper than two helper levels)'))
                continue
            nm = f.get('name')
            if nm not in STRUCTURE_PRESERVING:
                bad.append((b, t['line'], f'{nm} ({(f.get("path") or "")[:60]}) is not a structure-preserving operation'))
        for bi, bl in enumerate(b.blocks):
            t = bl['term']
            if t['k'] != 'switch' or bl.get('cleanup'):
                continue
            n_sw += 1
            tr = T.operand(t['op'])
            shown = exprtree.show(tr)
            ok = isinstance(tr, tuple) and tr[0] == 'discr' and (
                (isinstance(tr[1], tuple) and tr[1][0] == 'next') or shown in ('discr(a1.dynamic_params)',))
            if not ok:
                bad.append((b, t.get('line', 0), f'branch on {shown[:80]}'))
    rep.note('unconditional_scope', {'bodies': len(bs), 'calls': n_calls, 'branches': n_sw})
    seen = {}
    for b, line, why in bad:
        k = f'{b.path}|{why.split(" (")[0]}'
        o = seen.get(k, 0)
        seen[k] = o + 1
        rep.ob(rule, f'{k}|{o}', False,
               f'{why} inside the digest computation: some public inputs may then share a digest although they differ', b.loc(line), cfg)
    rep.ob(rule, 'get_hash', not bad,
           f'{len(bs)} bodies, {n_calls} calls, {n_sw} branches: only structure-preserving operations between the public input and the hashes',
           fn.loc(), cfg)
    if n_calls < 15:
        rep.fail_closed(rule, f'only {n_calls} calls seen in get_hash (at least 15 confirmed by reading)')
