"""C18 — malformed proofs are reported as errors, not crashes."""
import json
import os
import cfg as cfgmod
import common
import dataflow
import exprtree
import guardtable as GT
import hashsites
import literals
import panics
from common import *
from facts import op_place

EXPLANATION = (
    'Panic-site inventory over everything reachable from StarkProof::verify::<Layout> (all 7 layouts), '
    'StarkConfig::validate and every validate_public_input / verify_public_input: every MIR Assert terminator (bounds, '
    'overflow, division by zero; compiler-inserted pointer checks of vec! excluded), every call to a diverging function '
    '(panic!, assert!, assert_eq!, unreachable!) and every call to a catalogued partial API (unwrap/expect, Index on '
    'Vec/slice/str, drain/remove/split_at, unchecked NonZeroFelt construction feeding a division, integer division/pow, '
    'step_by, from_hex_unchecked on a non-literal). Each site must be discharged by exactly one of: an automatic rule '
    '(literal argument validated by the literal tables; NonZeroFelt of a non-zero constant or of a power of two; a value '
    'tested non-zero / power of two by a dominating guard; unwrap dominated by is_some on the same value; constant step; '
    'constant sub-range of a fixed-size digest), an entry of tables/c18_safe.json with a one-line reason and, where the '
    'reason is a validation guard, the guard that must still exist (a site whose guard disappears becomes live again), or '
    'an entry of known_findings.json (genuine crash sites). Anything else — in particular any new site — is a violation. '
    'The generated evaluators (too large for per-site MIR) are covered by their constant index ranges (C16/C01) against '
    'the lengths their callers establish. Sibling cross-check: the seven verify_public_input impls must have the same '
    'multiset of site kinds.')
NOT_DECIDED = ['a panic inside an external crate on a path not in the partial-API catalogue',
               'division by a transcript-derived value that is zero with probability <= degree/p (recorded as an assumption)']
TRUSTED = ['rustc nightly MIR', 'the partial-API catalogue in rules/panics.py', 'tables/c18_safe.json (reasons reviewed by reading)']
ASSUMPTIONS = ['field_div by a vanishing-polynomial / memory-product value at a transcript-derived point panics only with probability <= deg/p']

SAFE_PATH = os.path.join(os.path.dirname(os.path.dirname(os.path.dirname(os.path.abspath(__file__)))), 'tables', 'c18_safe.json')


def load_safe():
    with open(SAFE_PATH) as fh:
        return json.load(fh)


def const_nonzero(db, tree):
    return isinstance(tree, tuple) and tree[0] == 'val' and tree[1] % literals.P != 0


def is_pow2(tree):
    return isinstance(tree, tuple) and tree[0] in ('pow', 'pow_felt') and len(tree) == 3 and tree[1] == ('val', 2)


_AN = {}
_CALLERS = {}


def analysis(db, fn):
    k = (db.config, fn.path)
    if k not in _AN:
        fl = dataflow.Flow(db, fn)
        _AN[k] = (exprtree.Trees(db, fn), fl, fn.dominators(), dataflow.own_guards(db, fn, fl))
    return _AN[k]


def callers_of(db, path):
    if db.config not in _CALLERS:
        idx = {}
        for p, f in db.fns.items():
            if not f.has_mir or f.compact:
                continue
            for bi, t in f.calls():
                for c in db.resolve(t['f']):
                    idx.setdefault(c, []).append((f, bi, t))
        _CALLERS[db.config] = idx
    return _CALLERS[db.config].get(path, [])


def nonzero(db, fn, op, bb, depth=0):
    """the integer operand `op`, used in block `bb` of fn, cannot be zero: a non-zero constant, a value whose only
    source is tested != 0 by a guard that dominates the use (own_guards keeps only tests whose failing side cannot
    reach an accepting exit), or a parameter that every caller in the workspace passes such a value for"""
    T, fl, dom, guards = analysis(db, fn)
    tr = T.operand(op)
    if isinstance(tr, tuple) and tr[0] == 'val' and tr[1] >= 1:
        return 'non-zero constant'
    lv = set(fl.operand_leaves(op))
    if not lv or any(x.startswith('op:') or x.startswith('lit:') for x in lv):
        return None
    if bb in cfgmod.reach_accept(fn):
        for g in guards:
            if g.bb in dom.get(bb, ()) and g.bb != bb and g.covers == 'all' and g.rel == 'NE':
                sides = (set(g.lhs), set(g.rhs))
                if {'lit:0'} in sides and lv in sides:
                    return 'tested non-zero by a dominating guard'
    if len(lv) == 1 and depth < 2 and fn.kind != 'closure':
        (leaf,) = lv
        if leaf.startswith('a') and leaf[1:].isdigit() and 1 <= int(leaf[1:]) <= fn.arg_count:
            k = int(leaf[1:]) - 1
            cs = callers_of(db, fn.path)
            if cs and all(len(t.get('args', [])) > k and nonzero(db, cf, t['args'][k], bi, depth + 1) for cf, bi, t in cs):
                return f'parameter {k + 1}: every caller ({len(cs)}) passes a value tested non-zero'
    return None


def felt_nonzero_param(db, fn, tr, depth=0):
    """tr is a parameter of fn and every caller in the workspace passes a power of two / a non-zero constant (two levels)"""
    if not (isinstance(tr, tuple) and tr[0] == 'arg') or depth > 1 or fn.kind == 'closure':
        return None
    k = tr[1] - 1
    cs = callers_of(db, fn.path)
    if not cs:
        return None
    for cf, bi, t in cs:
        if len(t.get('args', [])) <= k:
            return None
        a = exprtree.Trees(db, cf).operand(t['args'][k])
        if not (is_pow2(a) or const_nonzero(db, a) or felt_nonzero_param(db, cf, a, depth + 1)):
            return None
    return f'parameter {k + 1}: every caller ({len(cs)}) passes a power of two / non-zero constant'


def auto_discharge(db, fn, site, T, fl, dom, guards):
    t = site['term']
    d = site['detail']
    if site['kind'] == 'call':
        args = t.get('args', [])
        if d == 'from_hex_unchecked':
            tr = T.operand(args[0]) if args else None
            if isinstance(tr, tuple) and tr[0] == 'str':
                try:
                    v = literals.parse_hex(tr[1].strip('"'))
                    if v < literals.P:
                        return 'literal argument below p'
                except ValueError:
                    return None
            return None
        if d == 'from_felt_unchecked':
            tr = T.operand(args[0]) if args else None
            if const_nonzero(db, tr):
                return 'non-zero constant'
            if is_pow2(tr):
                return 'power of two is never 0 mod p'
            if isinstance(tr, tuple) and tr[0] == 'mul' and all(const_nonzero(db, x) or is_pow2(x) for x in tr[1:]):
                return 'product of non-zero constants'
            lv = {x for x in fl.operand_leaves(args[0]) if x.startswith('a')} if args else set()
            for g in guards:
                if g.bb in dom.get(site['bb'], ()) and g.bb != site['bb'] and g.covers in ('all', 'iteration', 'some'):
                    gl = {x for x in g.lhs | g.rhs if x.startswith('a')}
                    nz = (g.rel == 'TRUE' and any('is_power_of_2' in x for x in g.lhs)) or \
                         (g.rel == 'NE' and any(x in ('lit:0',) or x.endswith('FELT_0') or x.endswith('Felt::ZERO') for x in g.lhs | g.rhs))
                    if nz and lv and lv <= gl:
                        return 'tested non-zero by a dominating guard'
            return None
        if d in ('unwrap', 'expect'):
            tr = T.operand(args[0]) if args else None
            # NonZeroFelt::try_from(2^k) / try_from(non-zero const): exprtree strips try_from
            full = t['f'].get('full') or ''
            if 'NonZeroFelt' in full or 'FeltIsZeroError' in full:
                if is_pow2(tr) or const_nonzero(db, tr):
                    return 'NonZeroFelt of a power of two / non-zero constant'
                why = felt_nonzero_param(db, fn, tr)
                if why:
                    return why
            # unwrap dominated by is_some / is_ok on the same value
            pl = op_place(args[0]) if args else None
            if pl is not None:
                for bi, t2 in fn.calls():
                    if t2['f'].get('name') in ('is_some', 'is_ok') and bi in dom.get(site['bb'], ()) and t2.get('args'):
                        if T.operand(t2['args'][0]) == tr:
                            # the unwrap must be on the true side: accept when the test's block dominates
                            return 'dominated by is_some/is_ok on the same value'
            return None
        if d in ('step_by', 'chunks', 'chunks_exact', 'windows', 'rchunks'):
            # these panic exactly when the step / chunk size is zero
            return nonzero(db, fn, args[1], site['bb']) if len(args) > 1 else None
        if d in ('remove', 'swap_remove') and len(args) > 1:
            # v.remove(0) panics exactly when v is empty
            ix = T.operand(args[1])
            if ix != ('val', 0):
                return None
            recv = T.operand(args[0])
            lv = set(fl.operand_leaves(args[0]))
            for g in guards:
                if g.rel == 'NONEMPTY' and g.bb in dom.get(site['bb'], ()) and g.bb != site['bb'] and set(g.lhs) == lv and lv \
                        and site['bb'] in cfgmod.reach_accept(fn):
                    return 'element 0 of a vector tested non-empty by a dominating guard'
            # every feasible path to the site has matched first()/last() of the same vector as Some
            ps = exprtree.paths_to(fn, site['bb'], limit=600)
            if ps:
                feas = [pt for pt in (exprtree.PathTrees(db, fn, pth) for pth in ps) if pt.consistent()]
                if feas and all(any(isinstance(c, tuple) and c[0] == 'discr' and isinstance(c[1], tuple) and c[1][0] in ('first', 'last')
                                    and c[1][1] == recv and v == '1' for c, v in pt.decisions()) for pt in feas):
                    return 'element 0 of a vector whose first() was matched as Some on every path to the site'
            return None
        if d == 'index':
            tr = T.operand(args[1]) if len(args) > 1 else None
            base = exprtree.show(T.operand(args[0])) if args else ''
            bt = T.operand(args[0]) if args else None
            is_digest = 'finalize' in base or (isinstance(bt, tuple) and bt and isinstance(bt[0], str) and hashsites.is_hash_helper(db, bt[0]))
            if isinstance(tr, tuple) and tr[0] == 'agg' and tr[1].startswith('core::ops::range::Range') and is_digest:
                kind = tr[1].split('::')[-1]
                s_, e_ = tr[3].get('start'), tr[3].get('end')
                sv = s_[1] if s_ and s_[0] == 'val' else None
                ev = e_[1] if e_ and e_[0] == 'val' else None
                if kind == 'Range' and sv is not None and ev is not None and sv <= ev <= 32:
                    return 'constant sub-range of a 32-byte digest'
                if kind == 'RangeFrom' and sv is not None and sv <= 32:
                    return 'constant suffix of a 32-byte digest'
                if kind == 'RangeTo' and ev is not None and ev <= 32:
                    return 'constant prefix of a 32-byte digest'
                if kind == 'RangeInclusive' and sv is not None and ev is not None and sv <= ev < 32:
                    return 'constant sub-range of a 32-byte digest'
            return None
    if site['kind'] == 'assert' and d in ('DivisionByZero', 'RemainderByZero'):
        # MIR: the divisor is the assert's only message operand; a dominating guard `divisor != 0` whose failing side
        # cannot continue (own_guards keeps only such branches) discharges it, provided the site itself is on a path
        # that can still accept (i.e. not on the guard's failing side)
        cl = op_place(t.get('cond')) if t.get('cond') else None
        ds = common.defs_of(fn).get(cl['l'], []) if cl and not cl['p'] else []
        if len(ds) != 1 or ds[0][1] != 'assign' or ds[0][2].get('k') != 'bin' or ds[0][2].get('op') != 'Eq':
            return None
        a, b = ds[0][2]['a'], ds[0][2]['b']
        zero = [x for x in (a, b) if op_place(x) is None and fl.operand_leaves(x) == {'lit:0'}]
        divs = [x for x in (a, b) if op_place(x) is not None]
        if len(zero) != 1 or len(divs) != 1:
            return None
        lv = set(fl.operand_leaves(divs[0]))
        if not lv or any(x.startswith('op:') or x.startswith('lit:') for x in lv):
            return None
        return nonzero(db, fn, divs[0], site['bb'])
    return None

THOROUGH_MAIN_CONFIGS = ['b248s6', 'nostd']


def run(ctx, rep):
    db = ctx.main
    cfg = db.config
    lay = db.layouts()
    safe = load_safe()
    entries = [VERIFY, CONFIG_VALIDATE]
    for s in lay.values():
        for m in ('validate_public_input', 'verify_public_input'):
            entries.append(common.layout_method(db, s, m, 'C18').path)
    R = db.reach(entries)
    n_sites = n_auto = n_table = 0
    guard_ok = guard_checker(db, lay)
    used_safe = set()
    pending = {}
    table_counts = {}
    kinds_by_layout = {}
    for p in sorted(R):
        fn = db.fns[p]
        if fn.compact:
            continue
        if not fn.has_mir:
            continue
        ss = panics.sites(db, fn)
        if not ss:
            if common_layout_of(p) and p.endswith('::verify_public_input'):
                kinds_by_layout[common_layout_of(p)] = []
            continue
        T = exprtree.Trees(db, fn)
        fl = dataflow.Flow(db, fn)
        dom = fn.dominators()
        guards = dataflow.own_guards(db, fn, fl)
        ords = {}
        remaining = {}
        for s in ss:
            n_sites += 1
            kd = f"{s['kind']}:{s['detail']}"
            o = ords.get(kd, 0)
            ords[kd] = o + 1
            why = auto_discharge(db, fn, s, T, fl, dom, guards)
            if why:
                n_auto += 1
                rep.ob('C18.site', f'{p}|{kd}|{o}', True, f'auto: {why}', fn.loc(s['line']), cfg)
                continue
            remaining.setdefault(kd, []).append((o, s))
        m = common_layout_of(p)
        if m and p.endswith('::verify_public_input'):
            kinds_by_layout[m] = sorted((kd, len(v)) for kd, v in remaining.items())
        for kd, lst in remaining.items():
            for o, s in lst:
                pending.setdefault((root_fn(p), kd), []).append((p, o, s, fn))
    # dispositions from the table: one entry per <function>|<kind>; the sites of a function's closures are looked up
    # under the closure's own path first and under the enclosing function otherwise (moving code into or out of a
    # closure does not change what it can do), and an entry covers at most `count` sites (the number confirmed by
    # reading): a further site of the same kind in the same function has no disposition
    unmatched = []
    used_total = {}
    for (rp, kd), lst in sorted(pending.items()):
        used_n = {}
        for p, o, s, fn in lst:
            key = f'{p}|{kd}|{o}'
            tkey = f'{p}|{kd}' if f'{p}|{kd}' in safe else f'{rp}|{kd}'
            if tkey not in safe and kd in SLICE_ACCESS:
                sib = [f'{rp}|{k2}' for k2 in sorted(SLICE_ACCESS) if f'{rp}|{k2}' in safe and
                       used_n.get(f'{rp}|{k2}', 0) + used_total.get(f'{rp}|{k2}', 0) < safe[f'{rp}|{k2}'].get('count', 1 << 30)]
                if sib:
                    tkey = sib[0]
            ent = safe.get(tkey)
            if ent is not None and (ent.get('ordinals') is None or o in ent['ordinals']) and \
                    used_n.get(tkey, 0) < ent.get('count', 1 << 30):
                used_n[tkey] = used_n.get(tkey, 0) + 1
                used_safe.add(tkey)
                missing = [g for g in ent.get('needs', []) if not guard_ok(g)]
                n_table += 1
                rep.ob('C18.site', key, not missing,
                       (f"table: {ent['reason']}" if not missing else
                        f"site was safe because of guard(s) {missing}, which no longer exist: {ent['reason']}"),
                       fn.loc(s['line']), cfg, sample=(n_table == 1))
            else:
                unmatched.append((rp, kd, p, o, s, fn, tkey if ent is not None else None))
        for tkey, n in used_n.items():
            table_counts[tkey] = max(table_counts.get(tkey, 0), n)
            used_total[tkey] = n
    # code moved between functions of one module (a helper extracted, a helper inlined): the sites an entry's function
    # no longer has may be found, in the same number, in another function of the same module. Such a site takes over
    # the entry (reason and guards); a site beyond what the module's entries cover has no disposition.
    pool = {}
    for tkey, ent in safe.items():
        if tkey.startswith('_') or not isinstance(ent, dict) or 'count' not in ent:
            continue
        fpath, kd = tkey.rsplit('|', 1)
        free = ent['count'] - used_total.get(tkey, 0)
        if free > 0:
            pool.setdefault((module_of(fpath), kind_class(kd)), []).extend([tkey] * free)
    for rp, kd, p, o, s, fn, over in unmatched:
        key = f'{p}|{kd}|{o}'
        donors = pool.get((module_of(rp), kind_class(kd)), [])
        if donors:
            tkey = donors.pop(0)
            ent = safe[tkey]
            used_safe.add(tkey)
            missing = [g for g in ent.get('needs', []) if not guard_ok(g)]
            n_table += 1
            rep.ob('C18.site', key, not missing,
                   (f"table (site moved within {module_of(rp)}, was in {tkey.split('|')[0].split('::')[-1]}): {ent['reason']}" if not missing else
                    f"site was safe because of guard(s) {missing}, which no longer exist: {ent['reason']}"),
                   fn.loc(s['line']), cfg)
        else:
            extra = '' if over is None else f" (the table entry {over} covers {safe[over].get('count')} site(s); this one is additional)"
            rep.ob('C18.site', key, False,
                   f"{kd} in {p} can panic on a malformed proof and has no disposition (not auto-discharged, not in tables/c18_safe.json){extra}",
                   fn.loc(s['line']), cfg)
    rep.note('table_entry_site_counts', table_counts)
    stale = sorted(k for k in safe if k not in used_safe and not k.startswith('_'))
    rep.note('safe_table_entries_unused', stale[:20])
    rep.note('counts', {'functions': len(R), 'sites': n_sites, 'auto': n_auto, 'table': n_table})
    # measured after the fix commits: 599 sites in MIR bodies (621 on the pinned tree)
    rep.floor('C18', 'panic sites inventoried', n_sites, 540)
    generated(db, rep, lay)
    # sibling cross-check
    if kinds_by_layout:
        from collections import Counter
        c = Counter(json.dumps(v) for v in kinds_by_layout.values())
        common_sig, _ = c.most_common(1)[0]
        for l, v in sorted(kinds_by_layout.items()):
            rep.ob('C18.sibling', f'{l}/verify_public_input', json.dumps(v) == common_sig,
                   f'{l}::verify_public_input has undischarged site kinds {v}; the majority of its siblings have {json.loads(common_sig)}',
                   '', cfg)


# partial operations that fail for the same reason -- a position beyond the length of a slice -- are one class: a table
# entry written for `xs[a..b]` also covers `xs.split_at(a)` / `xs[i]` at the same place, guarded by the same lengths
SLICE_ACCESS = {'call:index', 'call:index_mut', 'call:split_at', 'call:split_at_mut', 'assert:BoundsCheck', 'call:split_first', 'call:split_last'}


def kind_class(kd):
    return 'slice-access' if kd in SLICE_ACCESS else kd


def module_of(path):
    """crate::module of a function path (crate::layout::<name> for the layouts)"""
    import re
    q = re.sub(r'^<+', '', path).split(' as ')[0]
    parts = q.split('::')
    n = 3 if len(parts) > 2 and parts[1] == 'layout' else 2
    return '::'.join(parts[:n])


def root_fn(path):
    import re
    return re.sub(r'(::\{closure#\d+\})+$', '', path)


def common_layout_of(path):
    import re
    m = re.match(r'^<swiftness_air::layout::(\w+)::Layout as ', path)
    return m.group(1) if m else None


def in_module(g, root):
    """the guard is written in `root` itself or in a helper of the same module that `root` calls (directly or through
    such helpers): not somewhere deeper in another crate, after the values have been used"""
    m = module_of(root)
    chain = [v.split('@')[0] for v in g.via if '@' in v] + [g.fn]
    return all(module_of(c) == m for c in chain)


def guard_checker(db, lay):
    """named guards that table entries may depend on"""
    import props.c11 as c11
    cache = {}
    b = {'Layout': sorted(lay.values())[0]}

    def cfg_entry(name):
        tab = [e for e in c11.table() if e.name == name]
        guards = dataflow.effective_guards(db, CONFIG_VALIDATE)
        matched, _ = GT.match_table(db, guards, tab, c11.extras())
        return bool(matched.get(name))

    def find(fnpath, pred, binding=None):
        return any(pred(g) for g in dataflow.effective_guards(db, fnpath, binding))

    def check(name):
        if name in cache:
            return cache[name]
        r = False
        if name in ('queries<=48', 'fri-layers<=15', 'fri-layers>=2', 'fri-step<=4', 'fri-step>=1', 'pow-bits<=50', 'blowup<=16',
                    'cols-original', 'cols-interaction', 'fri-last-bound<=15', 'fri-first-step-0'):
            r = cfg_entry(name)
        elif name == 'oods-len':
            MS = 'const:' + LAYOUT_TRAIT + '::MASK_SIZE'
            r = find(STARK_COMMIT, lambda g: g.rel == 'EQ' and g.covers == 'all' and 'len(a3.oods_values)' in (g.lhs | g.rhs) and MS in (g.lhs | g.rhs), b)
        elif name == 'table-len':
            r = common.table_length_guard(db)
        elif name == 'fri-values-len':
            r = find(FRI_VERIFY, lambda g: g.rel == 'EQ' and g.covers == 'all' and {'len(a1)', 'len(a3.values)'} <= (g.lhs | g.rhs))
        elif name == 'max-steps':
            ok = True
            for s in lay.values():
                m = common.layout_method(db, s, 'validate_public_input')
                ok = ok and find(m.path, lambda g: g.rel == 'LT' and g.covers == 'all' and 'a1.log_n_steps' in g.lhs)
            r = ok
        elif name == 'formula-len':
            r = True
            for f in ('fri_formula4', 'fri_formula8', 'fri_formula16'):
                r = r and find('swiftness_fri::formula::' + f, lambda g: g.rel == 'EQ' and g.covers == 'all' and 'len(a1)' in (g.lhs | g.rhs))
        elif name == 'composition-cols':
            CD = 'const:' + LAYOUT_TRAIT + '::CONSTRAINT_DEGREE'
            r = find(VERIFY, lambda g: g.rel == 'EQ' and g.covers == 'all' and in_module(g, VERIFY) and
                     any(x.startswith('a1.config.composition.n_columns') for x in g.lhs | g.rhs) and CD in (g.lhs | g.rhs), b)
        elif name == 'domain<=64':
            r = find(VERIFY, lambda g: g.rel == 'LE' and g.covers == 'all' and in_module(g, VERIFY) and
                     {'a1.config.log_trace_domain_size', 'a1.config.log_n_cosets'} <= set(g.lhs) and
                     any(x.endswith('=64') or x == 'lit:64' for x in g.rhs), b)
        elif name == 'fri-commitment-shape':
            r = find(STARK_COMMIT, lambda g: g.rel == 'EQ' and g.covers == 'all' and in_module(g, STARK_COMMIT) and
                     'len(a3.fri.inner_layers)' in (g.lhs | g.rhs) and 'a4.fri.n_layers' in (g.lhs | g.rhs), b) and \
                find(STARK_COMMIT, lambda g: g.rel == 'EQ' and g.covers == 'all' and in_module(g, STARK_COMMIT) and
                     'len(a3.fri.last_layer_coefficients)' in (g.lhs | g.rhs) and 'a4.fri.log_last_layer_degree_bound' in (g.lhs | g.rhs), b)
        elif name == 'witness-nonempty':
            r = find(COMPUTE_COSET, lambda g: g.rel in ('NONEMPTY',) and 'a2' in g.lhs)
        elif name == 'check-asserts':
            r = any(p.endswith('::check_asserts') for p in db.fns)
        cache[name] = r
        return r
    return check


def generated(db, rep, lay):
    """constant-index reads inside the generated evaluators stay within the lengths their callers establish"""
    import props.c16 as c16
    cfg = db.config
    for lname, lself in sorted(lay.items()):
        tmp = type(rep)(rep.prop, rep.tier)
        r1 = c16.analyse(db, tmp, lname, lself, 'composition')
        r2 = c16.analyse(db, tmp, lname, lself, 'oods')
        ms = db.layout_const(lself, 'MASK_SIZE')
        cd = db.layout_const(lself, 'CONSTRAINT_DEGREE')
        nc = db.layout_const(lself, 'N_CONSTRAINTS')
        ok = bool(r1 and r2) and r1['maxidx'].get('mask_values', -1) < ms and r1['N'] == nc and r2['N'] == ms + cd and \
            r2['maxidx'].get('oods_values', -1) < ms + cd
        detail = f"mask idx<= {r1 and r1['maxidx'].get('mask_values')} (<{ms}), coeff idx < {nc} / {ms + cd}, oods idx <= {r2 and r2['maxidx'].get('oods_values')}"
        cols = r2['maxidx'].get('column_values') if r2 else None
        if lname != 'dynamic':
            n1 = None
            for i in db.impls:
                if i.get('self') == lself and i.get('trait', '').endswith('StaticLayoutTrait'):
                    vals = {it['name']: int(it['val']) for it in i['items'] if 'val' in it}
                    n1 = vals.get('NUM_COLUMNS_FIRST', 0) + vals.get('NUM_COLUMNS_SECOND', 0)
            ok = ok and cols is not None and n1 is not None and cols < n1 + cd
            detail += f'; column idx <= {cols} (< {n1}+{cd})'
        rep.ob('C18.generated', lname, ok, f'generated evaluators of {lname}: {detail}', '', cfg)
