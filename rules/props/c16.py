"""C16 — constraints and DEEP terms get independent random coefficients.

Decided structurally over the HIR of the 14 generated evaluators (7 layouts x {composition, DEEP})
and the MIR of stark_commit (coefficient vectors)."""
import common
import hirlib as H
from facts import AnalysisIncomplete

EXPLANATION = (
    'For each LayoutTrait impl the generated evaluator is located as the callee that receives the '
    "trait method's coefficient slice. Its HIR is interpreted abstractly: the returned value must "
    'be an accumulator built only by  acc := acc + coeff[i] * value  (optionally inside if/else '
    'whose else arm returns the accumulator unchanged), starting from a zero constant (linearity '
    'in the coefficient vector). Obligations per coefficient position i in 0..N-1 (N = '
    'N_CONSTRAINTS for the composition, MASK_SIZE+CONSTRAINT_DEGREE for DEEP, both read from the '
    'impl): exactly one term uses coeff[i]; its value depends (through let chains) on at least one '
    'mask value (composition) resp. on a column value, the evaluation point and oods_values[i] '
    'with the same i (DEEP); the coefficient slice has no use other than the N terms; static '
    'layouts have no conditional term; in the dynamic layout every condition tests exactly one '
    'uses_*_builtin flag and each flag guards a non-empty block. Caller side: stark_commit builds '
    'both coefficient vectors with lengths N_CONSTRAINTS resp. MASK_SIZE+CONSTRAINT_DEGREE from '
    'a fresh transcript challenge each.')
NOT_DECIDED = [
    'that a term is not identically zero for an algebraic reason (e.g. a numerator that cancels)',
    'the arithmetic content of each constraint expression',
]
TRUSTED = ['rustc nightly HIR/typeck (name resolution of bindings, so shadowing is exact)',
           'tables: none (all expectations are read from the impl: N_CONSTRAINTS, MASK_SIZE, '
           'CONSTRAINT_DEGREE)']

ZERO_CONSTS = {'swiftness_air::consts::FELT_0', 'starknet_types_core::felt::Felt::ZERO'}


class Term:
    __slots__ = ('idx', 'value', 'conds', 'line')

    def __init__(self, idx, value, conds, line):
        self.idx, self.value, self.conds, self.line = idx, value, conds, line


class Evaluator:
    def __init__(self, fn, coeff_b, params):
        self.fn = fn
        self.coeff = coeff_b
        self.params = params          # binding id -> param name
        self.env = {}                 # binding -> tuple(terms) for accumulators
        self.defs = {}                # binding -> [exprs]
        self.line = fn.span['lo']
        self.deps_memo = {}
        self.unrecognised = []

    # ---------- accumulator interpretation ----------
    def is_zero(self, e):
        e = H.strip(e)
        p = H.path_of(e)
        if p in ZERO_CONSTS:
            return True
        if H.tag(e) == 'call' and H.path_of(e[1]) and e[1][1].endswith('::from') and len(e) == 3:
            return H.lit_int(e[2]) == 0
        return False

    def parse_term(self, e, conds):
        e = H.strip(e)
        if H.tag(e) != 'bin' or e[1] != 'Mul':
            return None
        for a, b in ((e[2], e[3]), (e[3], e[2])):
            a = H.strip(a)
            if H.tag(a) == 'idx' and H.path_of(H.strip(a[1])) == self.coeff:
                i = H.lit_int(a[2])
                return Term(i, b, tuple(conds), self.line)
        return None

    def acc(self, e, conds):
        """evaluate e as an accumulator: tuple of terms, or None"""
        t = H.tag(e)
        if t == 'block':
            self.stmts(e[1], conds)
            return self.acc(e[2], conds) if e[2] is not None else None
        if t == 'ref' or (t == 'un' and e[1] == 'Deref'):
            return self.acc(H.strip(e), conds)
        if t == 'path':
            if e[1] in self.env:
                return self.env[e[1]]
            if self.is_zero(e):
                return ()
            return None
        if self.is_zero(e):
            return ()
        if t == 'bin' and e[1] == 'Add':
            for a, b in ((e[2], e[3]), (e[3], e[2])):
                term = self.parse_term(b, conds)
                if term is not None:
                    base = self.acc(a, conds)
                    if base is not None:
                        return base + (term,)
            return None
        if t == 'if':
            cond, th, el = e[1], e[2], e[3]
            a_t = self.acc(th, conds + [('if', cond)])
            a_e = self.acc(el, conds + [('else', cond)]) if el is not None else None
            if a_t is None or a_e is None:
                return None
            k = 0
            while k < len(a_t) and k < len(a_e) and a_t[k] is a_e[k]:
                k += 1
            return a_t[:k] + a_t[k:] + a_e[k:]
        return None

    def stmts(self, ss, conds):
        for s in ss:
            t = H.tag(s)
            if t == 'let':
                self.line = s[1]
                pat, init = s[2], s[3]
                if H.tag(pat) == 'bind' and init is not None:
                    b = pat[1]
                    self.defs.setdefault(b, []).append(init)
                    a = self.acc(init, conds)
                    if a is not None and not (a == () and not self.is_zero(init)):
                        self.env[b] = a
                elif init is not None:
                    for b, _ in H.bindings_in_pat(pat):
                        self.defs.setdefault(b, []).append(init)
            elif t == 'assign':
                tgt = H.path_of(H.strip(s[1]))
                if H.is_local(tgt):
                    self.defs.setdefault(tgt, []).append(s[2])
                    a = self.acc(s[2], conds)
                    if tgt in self.env:
                        if a is None and self.env[tgt] == ():
                            del self.env[tgt]   # a zero-initialised variable, not an accumulator
                        elif a is None:
                            self.unrecognised.append(('assignment to accumulator', self.line))
                            del self.env[tgt]
                        else:
                            self.env[tgt] = a
            elif t == 'assignop':
                tgt = H.path_of(H.strip(s[2]))
                if H.is_local(tgt):
                    self.defs.setdefault(tgt, []).append(s[3])
                    if tgt in self.env:
                        term = self.parse_term(s[3], conds) if s[1] in ('AddAssign', 'Add') else None
                        if term is None:
                            self.unrecognised.append(('compound assignment to accumulator', self.line))
                            del self.env[tgt]
                        else:
                            self.env[tgt] = self.env[tgt] + (term,)
            elif t == 'if':
                self.acc_stmt_if(s, conds)
            elif t == 'block':
                self.stmts(s[1], conds)
                if s[2] is not None:
                    self.stmts([s[2]], conds)
            elif t in ('loop', 'match'):
                # not produced by the generator; anything inside is opaque to the accumulator
                for n in H.walk(s):
                    if n[0] in ('assign', 'assignop'):
                        tgt = H.path_of(H.strip(n[1] if n[0] == 'assign' else n[2]))
                        if tgt in self.env:
                            self.unrecognised.append(('accumulator updated inside a loop/match', self.line))
                            del self.env[tgt]

    def acc_stmt_if(self, s, conds):
        cond, th, el = s[1], s[2], s[3]
        if H.tag(th) == 'block':
            self.stmts(th[1], conds + [('if', cond)])
            if th[2] is not None:
                self.stmts([th[2]], conds + [('if', cond)])
        if el is not None:
            if H.tag(el) == 'block':
                self.stmts(el[1], conds + [('else', cond)])
                if el[2] is not None:
                    self.stmts([el[2]], conds + [('else', cond)])
            elif H.tag(el) == 'if':
                self.acc_stmt_if(el, conds + [('else', cond)])

    # ---------- dependency closure ----------
    def deps(self, e):
        out = set()
        st = [e]
        while st:
            x = st.pop()
            if not isinstance(x, list) or not x:
                continue
            t = x[0] if isinstance(x[0], str) else None
            if t is None:
                st.extend(x)
                continue
            if t == 'idx':
                base = H.strip(x[1])
                bp = H.path_of(base)
                if bp in self.params:
                    out.add(('idx', bp, H.lit_int(x[2])))
                    st.append(x[2])
                    continue
            if t == 'field':
                chain = []
                y = x
                while H.tag(y) == 'field':
                    chain.append(y[2])
                    y = H.strip(y[1])
                bp = H.path_of(y)
                if bp in self.params:
                    out.add(('field', bp, '.'.join(reversed(chain))))
                    continue
            if t == 'path':
                p = x[1]
                if p in self.params:
                    out.add(('param', p, None))
                elif H.is_local(p):
                    out |= self.bdeps(p)
                continue
            if t == 'closure':
                continue
            st.extend(x[1:])
        return out

    def bdeps(self, b):
        if b in self.deps_memo:
            return self.deps_memo[b]
        self.deps_memo[b] = frozenset()  # cycle guard (mut self-updates)
        out = set()
        for e in self.defs.get(b, []):
            out |= self.deps(e)
        r = frozenset(out)
        self.deps_memo[b] = r
        return r


def coeff_uses(hir_value, coeff_b):
    return sum(1 for n in H.walk(hir_value) if n[0] == 'path' and n[1] == coeff_b)


def analyse(db, rep, lname, lself, kind):
    rule = f'C16.{kind}'
    method = 'eval_composition_polynomial' if kind == 'composition' else 'eval_oods_polynomial'
    COEFF_LOCAL = 4  # both trait methods take the coefficient slice as their 4th parameter
    fn, mapping, m = common.inner_evaluator(db, lself, method, COEFF_LOCAL, rule)
    if fn.hir is None:
        raise AnalysisIncomplete(rule, f'no HIR for {fn.path}')
    hir = fn.hir
    coeff_b = H.param_binding(hir, mapping[COEFF_LOCAL])
    params = {}
    for i, p in enumerate(hir['params']):
        for b, n in H.bindings_in_pat(p):
            params[b] = n
    inv = {v: k for k, v in mapping.items()}  # inner param index -> trait param local
    role = {}
    for i in range(len(hir['params'])):
        b = H.param_binding(hir, i)
        tl = inv.get(i)
        if kind == 'composition':
            role[b] = {3: 'mask_values', 4: 'coeff', 5: 'point'}.get(tl, 'other')
        else:
            role[b] = {2: 'column_values', 3: 'oods_values', 4: 'coeff', 5: 'point', 6: 'oods_point'}.get(tl, 'other')
    ev = Evaluator(fn, coeff_b, params)
    body = hir['value']
    result = ev.acc(body, [])
    loc = fn.loc()
    if result is None or ev.unrecognised:
        why = ev.unrecognised[0] if ev.unrecognised else ('returned value is not an accumulator of coeff[i]*value terms', fn.span['hi'])
        rep.ob(rule + '.linear', f'{lname}', False,
               f'{fn.path}: accumulator shape not recognised ({why[0]})', fn.loc(why[1]), db.config)
        return None
    rep.ob(rule + '.linear', f'{lname}', True,
           f'{len(result)} terms, every update is acc + coeff[i]*value', loc, db.config, sample=True)
    # expected N
    if kind == 'composition':
        N = db.layout_const(lself, 'N_CONSTRAINTS')
    else:
        ms, cd = db.layout_const(lself, 'MASK_SIZE'), db.layout_const(lself, 'CONSTRAINT_DEGREE')
        N = None if ms is None or cd is None else ms + cd
    if N is None:
        raise AnalysisIncomplete(rule, f'trait constants of {lself} not evaluated')
    by_idx = {}
    for t in result:
        by_idx.setdefault(t.idx, []).append(t)
    n_other = coeff_uses(body, coeff_b) - len(result)
    rep.ob(rule + '.coeff-only-in-terms', lname, n_other == 0,
           f'coefficient slice used {n_other} time(s) outside the {len(result)} accumulator terms',
           loc, db.config)
    extra = sorted(k for k in by_idx if k is None or k >= N or k < 0)
    rep.ob(rule + '.no-extra-index', lname, not extra,
           f'terms with non-literal or out-of-range coefficient index: {extra[:5]}', loc, db.config)
    flags = {}
    maxidx = {}
    for i in range(N):
        ts = by_idx.get(i, [])
        key = f'{lname}/{i}'
        if len(ts) != 1:
            rep.ob(rule + '.term', key, False,
                   f'coefficient {i} of {N} is used by {len(ts)} terms (expected exactly 1) in {fn.path}',
                   fn.loc(ts[0].line) if ts else loc, db.config)
            continue
        t = ts[0]
        d = ev.deps(t.value)
        roles = {}
        for k, b, x in d:
            roles.setdefault(role.get(b, 'other'), set()).add((k, x))
        for k, b, x in d:
            if k == 'idx' and x is not None:
                r = role.get(b, 'other')
                maxidx[r] = max(maxidx.get(r, -1), x)
        if kind == 'composition':
            ok = 'mask_values' in roles
            detail = 'value depends on no mask value' if not ok else 'depends on mask values'
        else:
            same = ('idx', i) in roles.get('oods_values', set())
            only = {x for k, x in roles.get('oods_values', set()) if k == 'idx'} == {i}
            ok = 'column_values' in roles and same and only and 'point' in roles
            detail = ('DEEP term must depend on a column value, the point and exactly oods_values[%d]; '
                      'found columns=%s oods=%s point=%s' % (
                          i, 'column_values' in roles,
                          sorted(x for k, x in roles.get('oods_values', set()) if k == 'idx')[:4],
                          'point' in roles))
        # conditions
        cond_ok = True
        for (arm, c) in t.conds:
            cd_ = ev.deps(c)
            fl = sorted(x for k, b, x in cd_ if k == 'field')
            good = (arm == 'if' and H.tag(c) == 'bin' and c[1] == 'Ne' and len(fl) == 1
                    and fl[0].split('.')[-1].startswith('uses_') and fl[0].endswith('_builtin')
                    and (ev.is_zero(c[2]) or ev.is_zero(c[3])))
            if good:
                flags.setdefault(fl[0].split('.')[-1], []).append(i)
            else:
                cond_ok = False
        if lname != 'dynamic' and t.conds:
            cond_ok = False
            detail = 'static layout has a conditional term'
        elif not cond_ok:
            detail = 'term is conditioned on something other than a single uses_*_builtin flag != 0'
        rep.ob(rule + '.term', key, ok and cond_ok, detail if not (ok and cond_ok) else 'ok',
               fn.loc(t.line), db.config, sample=(i == 0))
    return {'fn': fn.path, 'N': N, 'terms': len(result), 'flags': {k: len(v) for k, v in flags.items()},
            'maxidx': maxidx, 'unconditional': sum(1 for t in result if not t.conds)}

THOROUGH_MAIN_CONFIGS = ['b248s6', 'nostd']


def run(ctx, rep):
    db = ctx.main
    lay = db.layouts()
    rep.floor('C16', 'LayoutTrait impls', len(lay), 7)
    summary = {}
    for lname, lself in sorted(lay.items()):
        for kind in ('composition', 'oods'):
            r = analyse(db, rep, lname, lself, kind)
            summary[f'{lname}/{kind}'] = r
            if r and lname == 'dynamic' and kind == 'composition':
                rep.ob('C16.dynamic-flags', 'dynamic', len(r['flags']) >= 10 and r['unconditional'] > 0,
                       f"flags guarding non-empty blocks: {sorted(r['flags'])}; core terms: {r['unconditional']}",
                       '', db.config)
    rep.note('evaluators', summary)
    caller_side(ctx, rep)
    powers(ctx, rep)
    n_terms = sum(1 for o in rep.obligations if o['rule'].endswith('.term'))
    # measured on the pinned tree: 1539 composition + 2686 DEEP positions
    rep.floor('C16', 'coefficient positions examined', n_terms, 4225)


def caller_side(ctx, rep):
    """stark_commit builds the two coefficient vectors with the right lengths from fresh squeezes"""
    import dataflow
    db = ctx.main
    fn = db.fn(common.STARK_COMMIT, 'C16.caller')
    df = dataflow.Flow(db, fn)
    want = {
        'composition': {'const:' + common.LAYOUT_TRAIT + '::N_CONSTRAINTS'},
        'oods': {'const:' + common.LAYOUT_TRAIT + '::MASK_SIZE', 'const:' + common.LAYOUT_TRAIT + '::CONSTRAINT_DEGREE'},
    }
    found = {}
    defs = common.defs_of(fn)
    pr = common.powers_roles(db)
    if pr is None:
        rep.ob('C16.caller', 'powers_array-roles', False, 'powers_array: cannot tell which parameter is the challenge and which the count '
               '(expected one integer parameter and one Felt parameter that multiplies the accumulator)', fn.loc(), db.config)
        return
    import exprtree
    Tc = exprtree.Trees(db, fn)
    for bi, t in fn.calls():
        if t['f'].get('resolved', '').endswith('::powers_array') or t['f'].get('path', '').endswith('::powers_array'):
            ln = df.operand_leaves(t['args'][pr['n'] - 1])
            al = {f'call:{p}@bb{b}' for p, b in common.origin_calls(fn, t['args'][pr['alpha'] - 1], defs)}
            if pr['initial'] is not None:
                it = Tc.operand(t['args'][pr['initial'] - 1])
                rep.ob('C16.caller', f'initial=1|{t["line"] and len(found)}', it == ('val', 1),
                       f'powers_array is started at {exprtree.show(it)} (coefficient 0 must be alpha^0 = 1)', fn.loc(t['line']), db.config)
            for kind, w in want.items():
                if w <= ln and not any(x.startswith('const:' + common.LAYOUT_TRAIT) for x in ln - w):
                    found[kind] = (t['line'], al)
    for kind in want:
        ok = kind in found and any(x.startswith('call:' + common.T_SQUEEZE) for x in found[kind][1])
        rep.ob('C16.caller', kind, ok,
               f'stark_commit must build the {kind} coefficient vector with powers_array(1, <fresh challenge>, '
               f'{sorted(want[kind])}); found={kind in found}', fn.loc(found[kind][0]) if kind in found else fn.loc(),
               db.config)
    if len(found) == 2:
        a = {x for x in found['composition'][1] if x.startswith('call:')}
        b = {x for x in found['oods'][1] if x.startswith('call:')}
        rep.ob('C16.caller', 'distinct-challenges', a != b or not a,
               'the two coefficient vectors must come from different squeeze sites', fn.loc(), db.config)


def powers(ctx, rep):
    """powers_array(initial, alpha, n) = [initial * alpha^i for i < n]: coefficient i is its own power of the challenge.
    Recognised form: one loop over 0..n whose body pushes an accumulator and then multiplies it by alpha; the accumulator
    starts as `initial`; nothing else happens in the function (no indexing into the array built so far, no remainder,
    no second loop). Any other way of filling the vector is reported: the rule cannot tell that it yields distinct powers."""
    import dataflow
    import exprtree
    from facts import op_place
    db = ctx.main
    cfg = db.config
    cands = [p for p in db.fns if p.endswith('::commit::powers_array')]
    if len(cands) != 1:
        rep.fail_closed('C16.powers', f'powers_array not found ({cands})')
        return
    fn = db.fns[cands[0]]
    fl = dataflow.Flow(db, fn)
    T = exprtree.Trees(db, fn)
    why = []
    pr = common.powers_roles(db)
    if pr is None:
        rep.ob('C16.powers', 'powers_array', False, 'powers_array: parameter roles not recognisable (one integer count, one Felt multiplier)', fn.loc(), cfg)
        return
    AN, AA = f'a{pr["n"]}', f'a{pr["alpha"]}'
    allowed = {'with_capacity', 'new', 'reserve', 'into_iter', 'next', 'push', 'mul_assign', 'mul', 'len'}
    other = sorted({t['f'].get('name') for _, t in fn.calls()} - allowed)
    if other:
        why.append(f'other operations: {other}')
    be = fn.d.get('backedges') or []
    if len(be) != 1:
        why.append(f'{len(be)} loops (expected one)')
    sites = [g for g in dataflow.own_iter_sites(db, fn, fl) if g.kind == 'iter:loop']
    # `for _ in 0..n` or `while array.len() < n`: the count is n (possibly cast), nothing drawn from the Felt parameters
    bound_ok = False
    if len(sites) == 1:
        lv = set(sites[0].lhs)
        felt_leaves = {x for x in lv if x.startswith('a') and x != AN and x[1:2].isdigit()}
        if sites[0].root == 'range':
            bound_ok = AN in lv and lv <= {AN, 'lit:0'}
        elif sites[0].root == 'cond':
            # the only exit test compares the length of the vector being filled with n
            tests = []
            for b in fn.blocks:
                tm = b['term']
                if tm['k'] == 'switch' and not b.get('cleanup'):
                    tests.append(T.operand(tm['op']))
            arr = [T.operand(t['args'][0]) for _, t in fn.calls() if t['f'].get('name') == 'push']
            bound_ok = len(tests) == 1 and len(arr) == 1 and isinstance(tests[0], tuple) and tests[0][0] in ('Lt', 'lt') and \
                tests[0][1] == ('len', arr[0]) and tests[0][2] == ('arg', pr['n'])
    if not bound_ok:
        why.append('the loop does not run n times (0..n, or while array.len() < n)')
    pushes = [(bi, t) for bi, t in fn.calls() if t['f'].get('name') == 'push']
    muls = [(bi, t) for bi, t in fn.calls() if t['f'].get('name') in ('mul_assign', 'mul')]
    if len(pushes) != 1 or len(muls) != 1:
        why.append(f'{len(pushes)} push and {len(muls)} multiplication sites (expected one each)')
    else:
        (pb, pt), (mb, mt) = pushes[0], muls[0]
        loop_blocks = set()
        if len(be) == 1:
            tail, head = be[0]
            loop_blocks = fn.reachable_from(head) & fn.can_reach({tail})
        if pb not in loop_blocks or mb not in loop_blocks:
            why.append('push / multiplication outside the loop')
        dom = fn.dominators()
        if pb not in dom.get(mb, ()):
            why.append('the accumulator is multiplied before it is pushed (entry 0 would not be `initial`)')
        acc = op_place(pt['args'][1])
        defs = common.defs_of(fn)

        def root_local(op):
            """follow moves/copies/reborrows back to the variable"""
            pl = op_place(op)
            seen = set()
            while pl is not None and not [e for e in pl['p'] if e != '*'] and pl['l'] not in seen:
                seen.add(pl['l'])
                ds = defs.get(pl['l'], [])
                if len(ds) == 1 and ds[0][1] == 'assign' and ds[0][2]['k'] in ('use', 'ref') and not (1 <= pl['l'] <= fn.arg_count):
                    nxt = op_place(ds[0][2]['a']) if ds[0][2]['k'] == 'use' else ds[0][2]['place']
                    if nxt is None or 1 <= nxt['l'] <= fn.arg_count:
                        break       # `let mut value = initial`: the variable, not the parameter
                    pl = nxt
                    continue
                break
            return pl['l'] if pl is not None else None
        v_push = root_local(pt['args'][1])
        v_mul = root_local(mt['args'][0])
        if v_push is None or v_push != v_mul:
            why.append('the value pushed is not the accumulator that is multiplied')
        else:
            ds = defs.get(v_push, [])
            inits = [d for d in ds if d[1] == 'assign']
            if mt['f'].get('name') == 'mul':
                inits = [d for d in inits if d[0] not in loop_blocks]
            want_init = ('arg', pr['initial']) if pr['initial'] is not None else ('val', 1)
            if len(inits) != 1 or T.rvalue(inits[0][2], 0) != want_init:
                why.append('the accumulator does not start as `initial` (or as 1 when there is no such parameter)')
        if set(fl.operand_leaves(mt['args'][1])) != {AA}:
            why.append(f'the multiplier is not alpha alone (leaves {sorted(fl.operand_leaves(mt["args"][1]))[:4]})')
    rep.ob('C16.powers', 'powers_array', not why,
           'powers_array pushes initial, initial*alpha, initial*alpha^2, ... (accumulator loop over 0..n)' if not why else
           'powers_array is not the recognised accumulator loop, so coefficient i cannot be shown to be alpha^i: ' + '; '.join(why),
           fn.loc(), cfg)
