"""Obligation bookkeeping, known findings, evidence and violation reports."""
import json
import os
import time

VERIF = os.path.dirname(os.path.dirname(os.path.abspath(__file__)))
KNOWN = os.path.join(VERIF, 'known_findings.json')
EVIDENCE = os.environ.get('SWV_EVIDENCE_DIR') or os.path.join(VERIF, 'evidence')


def load_known():
    if not os.path.exists(KNOWN):
        return []
    with open(KNOWN) as fh:
        return json.load(fh)['findings']


class Report:
    def __init__(self, prop, tier, seed=0):
        self.prop = prop
        self.tier = tier
        self.seed = seed
        self.t0 = time.time()
        self.obligations = []      # dicts: rule, key, ok, detail, loc, config
        self.floors = []           # (rule, what, counted, floor)
        self.incomplete = []       # (rule, reason)
        self.analysed = {}         # free-form: configs, functions, ...
        self.undecided = []        # sub-rules that could not decide (not a violation)
        self.samples = []
        self.explanation = ''
        self.not_decided = []
        self.trusted = []
        self.assumptions = []
        self._keys = {}

    # -- obligations --
    def ob(self, rule, key, ok, detail='', loc='', config=None, sample=False):
        """Record one rule instance. `key` identifies the instance without line numbers."""
        full = f'{rule}|{key}'
        o = {'rule': rule, 'key': full, 'ok': bool(ok), 'detail': detail, 'loc': loc}
        if config:
            o['config'] = config
        self.obligations.append(o)
        if sample and len(self.samples) < 12:
            self.samples.append({k: o[k] for k in ('rule', 'key', 'ok', 'detail', 'loc')})
        return ok

    def floor(self, rule, what, counted, floor):
        self.floors.append({'rule': rule, 'what': what, 'counted': counted, 'floor': floor})
        if counted < floor:
            self.incomplete.append((rule, f'{what}: counted {counted} < floor {floor}'))

    def fail_closed(self, rule, reason):
        self.incomplete.append((rule, reason))

    def note(self, k, v):
        self.analysed[k] = v

    # -- finish --
    def finish(self, explanation, not_decided, trusted, assumptions=()):
        known = [k for k in load_known() if k.get('property') == self.prop
                 and k.get('status', 'open') == 'open']
        known_keys = {k['key']: k for k in known}
        # the same instance seen under several configs is one violation
        bad = {}
        for o in self.obligations:
            if not o['ok']:
                bad.setdefault(o['key'], o)
        hit_known, violations = [], []
        for key, o in sorted(bad.items()):
            if key in known_keys:
                hit_known.append((known_keys[key], o))
            else:
                violations.append(o)
        for k, o in hit_known:
            print(f"KNOWN-FINDING: property={self.prop} {k['what']} [{o['loc']}] key={k['key']}")
        stale = [k for k in known if k['key'] not in bad]
        for k in stale:
            # a listed finding that no longer fires is not an alarm; it is reported for hygiene
            print(f"NOTE: known finding no longer observed: {k['key']}")
        rc = 0
        vdir = os.path.join(EVIDENCE, 'violations')
        os.makedirs(vdir, exist_ok=True)
        for i, o in enumerate(violations):
            path = os.path.join(vdir, f'{self.prop}_{i}.json')
            with open(path, 'w') as fh:
                json.dump({'property': self.prop, **o}, fh, indent=1)
            print(f"  {o['rule']}: {o['detail']} at {o['loc']}  (key {o['key']})")
            print(f'VIOLATION property={self.prop} replay={path}')
            rc = 1
        for rule, reason in self.incomplete:
            path = os.path.join(vdir, f'{self.prop}_incomplete.json')
            with open(path, 'w') as fh:
                json.dump({'property': self.prop, 'rule': rule, 'incomplete': reason}, fh)
            print(f'ANALYSIS-INCOMPLETE rule={rule} reason={reason}')
            print(f'VIOLATION property={self.prop} replay={path}')
            rc = 1
        n_ob = len({o['key'] for o in self.obligations})
        n_ok = len({o['key'] for o in self.obligations if o['ok']} - set(bad))
        rules = sorted({o['rule'] for o in self.obligations})
        ev = {
            'property_id': self.prop,
            'tier': self.tier,
            'seed': self.seed,
            'level': 'other',
            'coverage': {
                'explanation': explanation,
                'obligations': n_ob,
                'discharged': n_ok,
                'evaluations': len(self.obligations),
                'distinct_nontrivial': n_ob,
                'rule': 'one obligation = one rule instance (site/field/guard/constant) found in '
                        "/repo's type-checked program; distinct = distinct instance keys "
                        '(function path + rule + detail, no line numbers); the same instance seen '
                        'under several build configurations counts once',
                'samples': self.samples or [{k: o[k] for k in ('rule', 'key', 'ok', 'detail', 'loc')}
                                            for o in self.obligations[:8]],
                'checker_cmd': f'./check {self.prop} --tier {self.tier}',
                'trusted_base': list(trusted),
                'rules': rules,
                'per_rule': {r: {'instances': len({o['key'] for o in self.obligations if o['rule'] == r}),
                                 'failing': len({o['key'] for o in self.obligations
                                                 if o['rule'] == r and not o['ok']})} for r in rules},
                'floors': self.floors,
                'analysed': self.analysed,
                'not_decided': list(not_decided),
                'undecided_subrules': self.undecided,
                'known_findings_hit': [k['key'] for k, _ in hit_known],
                'exhaustive': False,
            },
            'assumptions': list(assumptions),
            'wall_s': round(time.time() - self.t0, 2),
            'violations': len(violations) + len(self.incomplete),
        }
        os.makedirs(EVIDENCE, exist_ok=True)
        with open(os.path.join(EVIDENCE, f'{self.prop}.json'), 'w') as fh:
            json.dump(ev, fh, indent=1)
        print(f'{self.prop}: {n_ob} obligations, {n_ok} discharged, {len(hit_known)} known findings, '
              f'{len(violations)} violations, {len(self.incomplete)} incomplete; '
              f"{ev['wall_s']}s")
        return rc
