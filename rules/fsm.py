"""A8 transcript event automaton: abstracts the accepting paths of a function (callees inlined)
to an NFA over transcript events and compares its language with an expected regular language."""
import cfg
import common
import dataflow
import fieldflow
from facts import op_place

EVENT_OF = {
    common.T_ABSORB1: 'A', common.T_ABSORBV: 'A', common.T_ABSORB64: 'A',
    common.T_SQUEEZE: 'S', common.T_DIGEST: 'D', common.T_NEW: 'N',
}


class NFA:
    def __init__(self):
        self.n = 0
        self.eps = {}     # state -> set(states)
        self.tr = {}      # state -> list of (symbol, state)
        self.sites = {}   # symbol -> set of source locations

    def new(self):
        s = self.n
        self.n += 1
        return s

    def add_eps(self, a, b):
        self.eps.setdefault(a, set()).add(b)

    def add(self, a, sym, b):
        self.tr.setdefault(a, []).append((sym, b))

    def closure(self, states):
        st = list(states)
        seen = set(states)
        while st:
            s = st.pop()
            for t in self.eps.get(s, ()):
                if t not in seen:
                    seen.add(t)
                    st.append(t)
        return frozenset(seen)

    def step(self, states, sym):
        out = set()
        for s in states:
            for sy, t in self.tr.get(s, ()):
                if sy == sym:
                    out.add(t)
        return self.closure(out)

    def alphabet(self):
        return {sy for lst in self.tr.values() for sy, _ in lst}


class Builder:
    """Builds the NFA of `entry` (with local callees that touch the transcript inlined)."""

    def __init__(self, db, binding=None, label=None):
        self.db = db
        self.binding = binding or {}
        self.nfa = NFA()
        self.label = label or (lambda leaves: ','.join(sorted(leaves)))
        self._touch = {}
        self.flows = {}
        self.root = None

    def touches(self, path, stack=()):
        """does `path` (transitively) perform transcript events?"""
        if path in self._touch:
            return self._touch[path]
        fn = self.db.fns.get(path)
        if fn is None or not fn.has_mir or path in stack:
            return False
        self._touch[path] = False
        r = False
        for bi, t in fn.calls():
            for c in self.db.resolve(t['f'], self.binding):
                if c in EVENT_OF or self.touches(c, stack + (path,)):
                    r = True
        for c in self.db.closure_creations(fn):
            if self.touches(c, stack + (path,)):
                r = True
        self._touch[path] = r
        return r

    def flow(self, fn):
        if fn.path not in self.flows:
            self.flows[fn.path] = dataflow.Flow(self.db, fn, self.binding)
        return self.flows[fn.path]

    def build(self, path, argl=None, depth=0, accept_only=True):
        """returns (start, end) states of the sub-automaton for one activation of `path`.
        argl: leaves of the actual arguments in terms of the root function's parameters."""
        fn = self.db.fns[path]
        fl = self.flow(fn)
        if self.root is None:
            self.root = fl
        root = self.root
        N = self.nfa
        acc, rej = cfg.exit_blocks(fn)
        ra = cfg.reach_accept(fn)
        state_in = {}
        state_out = {}
        start, end = N.new(), N.new()

        def sub(leaves):
            return root._subst(leaves, argl, 0) if argl is not None else set(leaves)
        reach = fn.reachable_from(0)
        for bi in sorted(reach):
            state_in[bi] = N.new()
            state_out[bi] = N.new()
        N.add_eps(start, state_in[0])
        for bi in sorted(reach):
            b = fn.blocks[bi]
            t = b['term']
            cur = state_in[bi]
            # closures created in this block and handed to an adaptor: (closure)* at creation
            for s in b['stmts']:
                if s['k'] == 'assign' and s['rv'].get('k') == 'agg' and s['rv'].get('agg') == 'closure':
                    cp = s['rv']['closure']
                    if cp in self.db.fns and self.touches(cp):
                        cfn = self.db.fns[cp]
                        cap = set()
                        for o in s['rv']['ops']:
                            cap |= fl.operand_leaves(o)
                        cargs = [sub(cap)] + [set() for _ in range(cfn.arg_count - 1)]
                        cs, ce = self.build(cp, cargs, depth + 1)
                        nxt = N.new()
                        N.add_eps(cur, cs)
                        N.add_eps(ce, cur)      # star
                        N.add_eps(cur, nxt)
                        cur = nxt
            if t['k'] == 'call':
                targets = self.db.resolve(t['f'], self.binding)
                ev = next((EVENT_OF[c] for c in targets if c in EVENT_OF), None)
                if ev is not None:
                    args = t.get('args', [])
                    if ev in ('A', 'N'):
                        msg = sub(fl.operand_leaves(args[-1])) if args else set()
                        sym = ev + ':' + self.label(msg)
                    else:
                        sym = ev
                    nxt = N.new()
                    N.add(cur, sym, nxt)
                    N.sites.setdefault(sym, set()).add(fn.loc(t['line']))
                    if ev == 'S+':
                        N.add(nxt, sym, nxt)
                    cur = nxt
                else:
                    inl = [c for c in targets if self.touches(c)]
                    if inl and depth < 12:
                        a = [sub(fl.operand_leaves(x)) for x in t.get('args', [])]
                        nxt = N.new()
                        for c in inl:
                            cs, ce = self.build(c, a, depth + 1)
                            N.add_eps(cur, cs)
                            N.add_eps(ce, nxt)
                        cur = nxt
            N.add_eps(cur, state_out[bi])
            if t['k'] == 'return':
                N.add_eps(state_out[bi], end)
            if accept_only and bi in rej and bi not in acc:
                continue   # a rejecting assignment ends the accepting language here
            for s2 in fn.succ(bi):
                if s2 in state_in:
                    if accept_only and cfg.returns_result(fn) and s2 not in ra and not self._after_accept(fn, s2, acc):
                        continue
                    N.add_eps(state_out[bi], state_in[s2])
        return start, end

    def _after_accept(self, fn, bb, acc):
        """bb lies after an accepting assignment (drop/cleanup blocks on the way to return)"""
        key = ('after', fn.path)
        if key not in self._touch:
            s = set()
            for a in acc:
                s |= fn.reachable_from(a)
            self._touch[key] = s
        return bb in self._touch[key]


# ---------- expected languages ----------

def seq(*items):
    return ('seq', list(items))


def star(*items):
    return ('star', list(items))


def rep(k, *items):
    return ('seq', [x for _ in range(k) for x in items])


def build_expected(expr):
    N = NFA()

    def go(e, s):
        if isinstance(e, str):
            t = N.new()
            N.add(s, e, t)
            return t
        kind, items = e
        if kind == 'seq':
            cur = s
            for it in items:
                cur = go(it, cur)
            return cur
        if kind == 'star':
            a = N.new()
            N.add_eps(s, a)
            cur = a
            for it in items:
                cur = go(it, cur)
            N.add_eps(cur, a)
            b = N.new()
            N.add_eps(a, b)
            return b
        raise ValueError(kind)
    s0 = N.new()
    end = go(expr, s0)
    return N, s0, end


def compare(n1, s1, e1, n2, s2, e2, limit=20000):
    """language equality of two NFAs (determinised on the fly). Returns None when equal, else a
    shortest distinguishing word and which side accepts it."""
    alpha = sorted(n1.alphabet() | n2.alphabet())
    a0 = (n1.closure({s1}), n2.closure({s2}))
    prev = {a0: None}
    queue = [a0]
    while queue:
        cur = queue.pop(0)
        x, y = cur
        fx, fy = e1 in x, e2 in y
        if fx != fy:
            w = []
            c = cur
            while prev[c] is not None:
                c, sym = prev[c]
                w.append(sym)
            return w[::-1], ('code' if fx else 'expected')
        for sym in alpha:
            nx, ny = n1.step(x, sym), n2.step(y, sym)
            if not nx and not ny:
                continue
            nxt = (nx, ny)
            if nxt not in prev:
                prev[nxt] = (cur, sym)
                queue.append(nxt)
                if len(prev) > limit:
                    raise RuntimeError('automaton too large')
    return None
