"""Matching extracted guards (dataflow.Guard) against frozen guard tables (A6 / R-GUARD)."""
import re
import literals


def norm_leaf(db, leaf):
    """constants by value: const:<path>[=v] and lit:v become val:v when the literal is known"""
    if leaf.startswith('lit:'):
        try:
            return 'val:%d' % int(leaf[4:])
        except ValueError:
            return leaf
    if leaf.startswith('idx:'):
        body = leaf[4:].split('=')[0]
        return 'idx:' + body.split('::')[-1]
    if leaf.startswith('const:'):
        body = leaf[6:]
        path, _, v = body.partition('=')
        if v:
            return 'val:' + v
        val = literals.const_value(db, path)
        if val is not None:
            return 'val:%d' % val
        return 'const:' + path
    return leaf


IGNORABLE = ('call:', 'pred:', 'fn:', 'closure:', 'str:')


def norm_side(db, side, keep_calls=False):
    out = set()
    for lf in side:
        if not keep_calls and lf.startswith(IGNORABLE):
            continue
        out.add(norm_leaf(db, lf))
    return frozenset(out)


class Entry:
    """rel(lhs ; rhs). Each side: a set of required leaves; `opt` leaves may or may not appear.
    For EQ/NE the sides are unordered. covers: 'all' (every accepting path) or 'iteration'."""

    def __init__(self, name, rel, lhs, rhs, covers='all', opt=(), why='', alts=None, required=True):
        self.name, self.rel = name, rel
        self.lhs, self.rhs = frozenset(lhs), frozenset(rhs)
        self.covers = covers
        self.open = opt is None       # opt=None: listed leaves required, any further leaves allowed
        self.opt = frozenset(opt or ())
        self.why = why
        self.alts = alts or []      # alternative (rel, lhs, rhs) forms
        self.required = required

    def forms(self):
        yield (self.rel, self.lhs, self.rhs)
        for a in self.alts:
            yield (a[0], frozenset(a[1]), frozenset(a[2]))

    def matches(self, rel, lhs, rhs, covers):
        if self.covers == 'all' and covers != 'all':
            return False
        if self.covers == 'iteration' and covers not in ('iteration', 'all'):
            return False
        for r, l, rr in self.forms():
            if r != rel:
                continue
            if self._side(lhs, l) and self._side(rhs, rr):
                return True
            if rel in ('EQ', 'NE') and self._side(lhs, rr) and self._side(rhs, l):
                return True
        return False

    def _side(self, have, want):
        if self.open:
            return want <= have
        return want <= have and (have - want) <= self.opt


def match_table(db, guards, table, extras=(), ignore_kinds=('discr', 'bounds')):
    """returns (matched: {entry name: [guards]}, unexpected: [guards])"""
    matched = {e.name: [] for e in table}
    unexpected = []
    for g in guards:
        if getattr(g, 'kind', None) in ignore_kinds:
            continue
        lhs, rhs = norm_side(db, g.lhs), norm_side(db, g.rhs)
        hit = False
        for e in table:
            if e.matches(g.rel, lhs, rhs, g.covers):
                matched[e.name].append(g)
                hit = True
        if not hit:
            for e in extras:
                if e.matches(g.rel, lhs, rhs, g.covers):
                    hit = True
                    break
        if not hit:
            unexpected.append((g, lhs, rhs))
    return matched, unexpected


def describe(rel, lhs, rhs):
    return f'{rel}({", ".join(sorted(lhs))} ; {", ".join(sorted(rhs))})'
