"""Utilities over the HIR-lite trees emitted by the driver (nested lists, first element = tag)."""
import sys

sys.setrecursionlimit(100000)


def tag(e):
    return e[0] if isinstance(e, list) and e else None


def walk(e):
    """pre-order over every node (lists whose first element is a str tag)"""
    st = [e]
    while st:
        x = st.pop()
        if isinstance(x, list):
            if x and isinstance(x[0], str):
                yield x
            st.extend(reversed(x))


def lit_int(e):
    if tag(e) == 'lit' and isinstance(e[1], dict) and 'int' in e[1]:
        return int(e[1]['int'])
    return None


def lit_str(e):
    if tag(e) == 'lit' and isinstance(e[1], str):
        return e[1]
    return None


def path_of(e):
    if tag(e) == 'path':
        return e[1]
    return None


def is_local(p):
    return isinstance(p, str) and len(p) > 1 and p[0] == 'L' and p[1:].isdigit()


def strip(e):
    """strip references / derefs / trivial blocks / casts-by-into"""
    while True:
        t = tag(e)
        if t == 'ref':
            e = e[1]
        elif t == 'un' and e[1] == 'Deref':
            e = e[2]
        elif t == 'block' and not e[1] and e[2] is not None:
            e = e[2]
        else:
            return e


def bindings_in_pat(p):
    out = []
    for n in walk(p):
        if n[0] == 'bind':
            out.append((n[1], n[2]))
    return out


def param_binding(hir, idx):
    bs = bindings_in_pat(hir['params'][idx])
    return bs[0][0] if bs else None


def param_name(hir, idx):
    bs = bindings_in_pat(hir['params'][idx])
    return bs[0][1] if bs else None


def all_strings(e):
    """every string literal in the tree, in source order"""
    out = []
    for n in walk(e):
        if n[0] == 'lit' and isinstance(n[1], str):
            out.append(n[1])
    return out


def find_calls(e, suffix):
    """call / method-call nodes whose resolved callee path ends with `suffix`"""
    out = []
    for n in walk(e):
        if n[0] == 'call' and tag(n[1]) == 'path' and isinstance(n[1][1], str) and n[1][1].endswith(suffix):
            out.append(n)
        elif n[0] == 'mcall' and isinstance(n[2], str) and n[2].endswith(suffix):
            out.append(n)
    return out
