"""Program database over the fact files of one build configuration."""
import json
import os
import re
from collections import defaultdict


class AnalysisIncomplete(Exception):
    """Fail-closed: an anchor is missing, a count fell below its floor, a fact file is stale."""

    def __init__(self, rule, reason):
        super().__init__(f'ANALYSIS-INCOMPLETE rule={rule} reason={reason}')
        self.rule = rule
        self.reason = reason


class Fn:
    def __init__(self, d, crate):
        self.d = d
        self.crate = crate
        self.path = d['path']
        self.name = d.get('name', '')
        self.kind = d['kind']
        self.skipped = d.get('skipped', False)
        self.compact = d.get('compact', False)
        self.derived = d.get('derived', False)
        self.blocks = d.get('blocks', [])
        self.locals = d.get('locals', [])
        self.arg_count = d.get('arg_count', 0)
        self.span = d['span']
        self.file = self.span['file']
        self.hir = d.get('hir')
        self.backedges = [tuple(x) for x in d.get('backedges', [])]
        self._succ = None
        self._pred = None

    def __repr__(self):
        return f'<Fn {self.path}>'

    @property
    def has_mir(self):
        return not self.skipped and not self.compact and bool(self.blocks)

    def loc(self, line=None):
        return f"{self.file}:{line if line is not None else self.span['lo']}"

    # ---- CFG (unwind/cleanup edges ignored) ----
    def succ(self, bb):
        if self._succ is None:
            self._succ = [self._compute_succ(i) for i in range(len(self.blocks))]
        return self._succ[bb]

    def _compute_succ(self, i):
        b = self.blocks[i]
        if b.get('cleanup'):
            return []
        t = b['term']
        k = t['k']
        if k == 'goto' or k == 'drop' or k == 'assert':
            return [t['target']]
        if k == 'switch':
            out = [x[1] for x in t['targets']] + [t['otherwise']]
            seen = []
            for x in out:
                if x not in seen:
                    seen.append(x)
            return seen
        if k == 'call':
            return [t['target']] if t.get('target') is not None else []
        return []

    def pred(self, bb):
        if self._pred is None:
            self._pred = [[] for _ in self.blocks]
            for i in range(len(self.blocks)):
                for s in self.succ(i):
                    self._pred[s].append(i)
        return self._pred[bb]

    def reachable_from(self, start, removed=()):
        removed = set(removed)
        if start in removed:
            return set()
        seen = {start}
        st = [start]
        while st:
            b = st.pop()
            for s in self.succ(b):
                if s not in seen and s not in removed:
                    seen.add(s)
                    st.append(s)
        return seen

    def can_reach(self, targets, removed=()):
        """set of blocks from which some block in `targets` is reachable (targets included)."""
        removed = set(removed)
        seen = set(t for t in targets if t not in removed)
        st = list(seen)
        while st:
            b = st.pop()
            for p in self.pred(b):
                if p not in seen and p not in removed:
                    seen.add(p)
                    st.append(p)
        return seen

    def return_blocks(self):
        return [i for i, b in enumerate(self.blocks)
                if not b.get('cleanup') and b['term']['k'] == 'return']

    def calls(self):
        """yield (bb, term) for every call terminator in non-cleanup blocks"""
        for i, b in enumerate(self.blocks):
            if b.get('cleanup'):
                continue
            if b['term']['k'] == 'call':
                yield i, b['term']

    def local_ty(self, l):
        return self.locals[l]['ty'] if l < len(self.locals) else '?'

    def local_name(self, l):
        return self.locals[l].get('name') if l < len(self.locals) else None

    def dominators(self):
        """simple iterative dominator sets (functions are small)"""
        n = len(self.blocks)
        reach = self.reachable_from(0)
        dom = {b: set(reach) for b in reach}
        dom[0] = {0}
        changed = True
        order = sorted(reach)
        while changed:
            changed = False
            for b in order:
                if b == 0:
                    continue
                ps = [p for p in self.pred(b) if p in reach]
                if not ps:
                    continue
                new = set.intersection(*[dom[p] for p in ps]) | {b}
                if new != dom[b]:
                    dom[b] = new
                    changed = True
        return dom


def norm_ty(s):
    return s


class DB:
    def __init__(self, facts_dir, config=None):
        self.dir = facts_dir
        self.config = config
        self.fns = {}
        self.consts = {}
        self.adts = {}
        self.impls = []
        self.traits = {}
        self.features = {}
        self.crates = []
        for f in sorted(os.listdir(facts_dir)):
            if not f.endswith('.json'):
                continue
            with open(os.path.join(facts_dir, f)) as fh:
                d = json.load(fh)
            crate = d['crate']
            self.crates.append(crate)
            self.features[crate] = d['features']
            for fn in d['fns']:
                self.fns[fn['path']] = Fn(fn, crate)
            for c in d['consts']:
                c['crate'] = crate
                self.consts[c['path']] = c
            for a in d['adts']:
                a['crate'] = crate
                self.adts[a['path']] = a
            for i in d['impls']:
                i['crate'] = crate
                self.impls.append(i)
            for t in d['traits']:
                self.traits[t['path']] = t
        self._closures_of = None
        self._callees_cache = {}

    # ---- lookup ----
    def fn(self, path, rule='anchor'):
        f = self.fns.get(path)
        if f is None:
            raise AnalysisIncomplete(rule, f'function {path} not found in config {self.config}')
        return f

    def find_fns(self, regex):
        r = re.compile(regex)
        return [f for p, f in sorted(self.fns.items()) if r.search(p)]

    def const(self, path, rule='anchor'):
        c = self.consts.get(path)
        if c is None:
            raise AnalysisIncomplete(rule, f'const {path} not found in config {self.config}')
        return c

    def impls_of(self, trait):
        return [i for i in self.impls if i.get('trait') == trait]

    def impl_item(self, trait, self_ty, name):
        for i in self.impls:
            if i.get('trait') == trait and i['self'] == self_ty:
                for it in i['items']:
                    if it['name'] == name:
                        return it
        return None

    def closures_of(self, path):
        if self._closures_of is None:
            self._closures_of = defaultdict(list)
            for p, f in self.fns.items():
                if f.kind == 'closure':
                    self._closures_of[f.d.get('parent')].append(p)
        return self._closures_of.get(path, [])

    # ---- call resolution ----
    def resolve(self, callee, binding=None):
        """callee facts -> list of local fn paths it may dispatch to ([] for external code).
        `binding` maps a generic parameter name (e.g. 'Layout') to a concrete self type."""
        if callee.get('indirect'):
            return []
        if callee.get('is_resolved') and callee.get('resolved') in self.fns:
            return [callee['resolved']]
        tr = callee.get('trait')
        if tr and tr in self.traits:
            st = callee.get('self_ty')
            name = callee['name']
            if binding and st in binding:
                it = self.impl_item(tr, binding[st], name)
                return [it['path']] if it and it['path'] in self.fns else []
            out = []
            for i in self.impls_of(tr):
                for it in i['items']:
                    if it['name'] == name and it['path'] in self.fns:
                        out.append(it['path'])
            if not out:
                # default method in the trait itself
                for it in self.traits[tr]['items']:
                    if it['name'] == name and it['path'] in self.fns:
                        out.append(it['path'])
            return out
        if callee.get('resolved') in self.fns:
            return [callee['resolved']]
        if callee.get('path') in self.fns:
            return [callee['path']]
        return []

    def closure_creations(self, fn):
        """closure def paths created in fn (Aggregate(Closure))"""
        out = []
        for b in fn.blocks:
            if b.get('cleanup'):
                continue
            for s in b['stmts']:
                if s['k'] == 'assign' and s['rv'].get('k') == 'agg' and s['rv'].get('agg') == 'closure':
                    out.append(s['rv']['closure'])
        return out

    def callees(self, path, binding=None):
        key = (path, tuple(sorted(binding.items())) if binding else None)
        if key in self._callees_cache:
            return self._callees_cache[key]
        f = self.fns[path]
        out = []
        if f.has_mir:
            for _, t in f.calls():
                for c in self.resolve(t['f'], binding):
                    if c not in out:
                        out.append(c)
            for c in self.closure_creations(f):
                if c in self.fns and c not in out:
                    out.append(c)
        elif f.compact:
            for cs in f.d.get('callsum', []):
                for c in self.resolve(cs['f'], binding):
                    if c not in out:
                        out.append(c)
            for c in self.closures_of(path):
                if c not in out:
                    out.append(c)
        self._callees_cache[key] = out
        return out

    def reach(self, entries, binding=None):
        seen = []
        st = list(entries)
        seenset = set()
        while st:
            p = st.pop()
            if p in seenset or p not in self.fns:
                continue
            seenset.add(p)
            seen.append(p)
            for c in self.callees(p, binding):
                if c not in seenset:
                    st.append(c)
        return seen

    def layouts(self):
        """{layout name: self type} for every impl of LayoutTrait in this config"""
        out = {}
        for i in self.impls_of('swiftness_air::layout::LayoutTrait'):
            m = re.match(r'swiftness_air::layout::(\w+)::Layout$', i['self'])
            if m:
                out[m.group(1)] = i['self']
        return out

    def layout_const(self, layout_self, name):
        for i in self.impls:
            if i.get('self') == layout_self:
                for it in i['items']:
                    if it['name'] == name and 'val' in it:
                        return int(it['val'])
        return None


# ---------- helpers on operands / places ----------

def op_place(op):
    return op.get('cp') or op.get('mv')


def op_const(op):
    return op.get('c')


def is_local_place(pl, local=None):
    return pl is not None and not pl['p'] and (local is None or pl['l'] == local)


def ty_is_result(ty):
    return ty.startswith('core::result::Result<')


def ty_is_option(ty):
    return ty.startswith('core::option::Option<')
