"""Sparse multivariate polynomials over F_p (abstract domain for straight-line field arithmetic).
A polynomial is a dict {monomial: coeff}, monomial = tuple of (var, exp) sorted by var."""
from literals import P


def const(c):
    c %= P
    return {(): c} if c else {}


def var(name):
    return {((name, 1),): 1}


def add(a, b):
    out = dict(a)
    for m, c in b.items():
        v = (out.get(m, 0) + c) % P
        if v:
            out[m] = v
        else:
            out.pop(m, None)
    return out


def neg(a):
    return {m: (-c) % P for m, c in a.items()}


def sub(a, b):
    return add(a, neg(b))


def mul_mono(m1, m2):
    d = dict(m1)
    for v, e in m2:
        d[v] = d.get(v, 0) + e
    return tuple(sorted(d.items()))


def mul(a, b):
    out = {}
    for m1, c1 in a.items():
        for m2, c2 in b.items():
            m = mul_mono(m1, m2)
            v = (out.get(m, 0) + c1 * c2) % P
            if v:
                out[m] = v
            else:
                out.pop(m, None)
    return out


def power(a, n):
    r = const(1)
    for _ in range(n):
        r = mul(r, a)
    return r


def subst(a, mapping):
    """replace variables by polynomials"""
    out = {}
    for m, c in a.items():
        term = const(c)
        for v, e in m:
            term = mul(term, power(mapping[v], e) if v in mapping else {((v, e),): 1})
        out = add(out, term)
    return out


def cancel(a, x, u):
    """apply the relation x*u = 1"""
    out = {}
    for m, c in a.items():
        d = dict(m)
        k = min(d.get(x, 0), d.get(u, 0))
        if k:
            d[x] -= k
            d[u] -= k
            d = {v: e for v, e in d.items() if e}
        m2 = tuple(sorted(d.items()))
        v = (out.get(m2, 0) + c) % P
        if v:
            out[m2] = v
        else:
            out.pop(m2, None)
    return out


def degree_in(a, v):
    return max((dict(m).get(v, 0) for m in a), default=0)


def show(a, limit=6):
    items = sorted(a.items(), key=lambda kv: repr(kv[0]))[:limit]
    s = ' + '.join((hex(c) if c > 1000 else str(c)) + ''.join(f'*{v}^{e}' if e > 1 else f'*{v}' for v, e in m)
                   for m, c in items)
    return s + (' + ...' if len(a) > limit else '')
