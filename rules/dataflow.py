"""A5 leaf-set data flow (flow-insensitive, field-sensitive on access paths, interprocedural by
summary substitution) and A6 guard extraction.

Leaves are strings:
  a<k><path>        access path rooted at parameter k (1-based MIR local), e.g. a1.fri.n_layers,
                    a1.fri.fri_step_sizes[*]; len(a1.x) for a length
  const:<defpath>   a named const item / associated const (value appended as =v when integral)
  lit:<v>           an integer literal
  str:<s>           a string literal
  call:<path>#k     result of the k-th call to an opaque/external callee in the function
  op:<name>         an operation applied on the way (add, sub, mul, pow_felt, field_div, ...)
  closure:<path>    a closure value created here
Over-approximate: a dependency can only appear, never disappear (except through the documented
transparent-call table)."""
import re
from facts import op_place, AnalysisIncomplete
import cfg as cfgmod
import common

TRANSPARENT_ARG0 = {
    # callee name -> treat result as arg0 (conversion / wrapper / accessor)
    'deref', 'deref_mut', 'clone', 'to_owned', 'borrow', 'borrow_mut', 'as_ref', 'as_mut', 'into',
    'from', 'try_into', 'try_from', 'unwrap', 'expect', 'ok_or', 'ok_or_else', 'branch',
    'map_err', 'iter', 'iter_mut', 'into_iter', 'copied', 'cloned', 'as_slice', 'to_vec',
    'unwrap_or_default', 'ok', 'to_biguint', 'to_bigint', 'to_bytes_be', 'to_be_bytes', 'rev',
    'enumerate', 'skip', 'step_by', 'take', 'as_slice', 'as_mut_slice', 'from_residual', 'unwrap_unchecked',
    'from_felt_unchecked', 'into_boxed_slice', 'into_vec', 'as_ptr', 'finalize', 'to_string', 'as_str',
    'as_bytes', 'from_bytes_be_slice', 'from_bytes_be', 'peekable', 'by_ref',
    'box_assume_init_into_vec_unsafe', 'new_uninit', 'write', 'assume_init', 'collect',
    # views of a slice carry the slice's leaves (halves of split_at: same contents, a part of the length)
    'split_at', 'split_at_mut',
}
ELEMENT_OF_ARG0 = {'get', 'get_mut', 'index', 'index_mut', 'first', 'last', 'next', 'first_mut',
                   'last_mut', 'get_unchecked', 'pop', 'remove', 'drain', 'nth', 'peek', 'next_back'}
LEN_OF_ARG0 = {'len'}
OPS = {
    'add': 'add', 'add_assign': 'add', 'sub': 'sub', 'sub_assign': 'sub', 'mul': 'mul',
    'mul_assign': 'mul', 'div': 'div', 'rem': 'rem', 'neg': 'neg', 'pow_felt': 'pow_felt',
    'pow': 'pow', 'field_div': 'field_div', 'floor_div': 'floor_div', 'div_rem': 'div_rem',
    'sqrt': 'sqrt', 'inverse': 'inverse', 'double': 'double', 'square': 'square',
    'reverse_bits': 'reverse_bits', 'shl': 'shl', 'shr': 'shr', 'checked_sub': 'sub',
    'checked_add': 'add', 'checked_mul': 'mul', 'wrapping_sub': 'sub', 'wrapping_add': 'add',
    'saturating_sub': 'sub', 'bitand': 'bitand', 'bitor': 'bitor', 'bitxor': 'bitxor', 'not': 'not',
    'eq': 'cmp', 'ne': 'cmp', 'lt': 'cmp', 'le': 'cmp', 'gt': 'cmp', 'ge': 'cmp', 'cmp': 'cmp',
    'partial_cmp': 'cmp', 'sum': 'add', 'product': 'mul', 'div_floor': 'floor_div',
}
BINOP = {'Add': 'add', 'AddWithOverflow': 'add', 'Sub': 'sub', 'SubWithOverflow': 'sub',
         'Mul': 'mul', 'MulWithOverflow': 'mul', 'Div': 'div', 'Rem': 'rem', 'Shl': 'shl',
         'Shr': 'shr', 'BitAnd': 'bitand', 'BitOr': 'bitor', 'BitXor': 'bitxor',
         'Eq': 'cmp', 'Ne': 'cmp', 'Lt': 'cmp', 'Le': 'cmp', 'Gt': 'cmp', 'Ge': 'cmp',
         'AddUnchecked': 'add', 'SubUnchecked': 'sub', 'MulUnchecked': 'mul', 'Offset': 'offset',
         'Cmp': 'cmp'}
WRAPPER_ADTS = {'core::option::Option', 'core::result::Result',
                'core::ops::control_flow::ControlFlow'}
DEFAULT_OPAQUE = {common.T_SQUEEZE, common.T_SQUEEZE_N, common.T_ABSORB1, common.T_ABSORBV,
                  common.T_ABSORB64, common.T_DIGEST, common.T_NEW}
MAX_DEPTH = 4

_PATH_RE = re.compile(r'^(len\()?(a\d+|call:[^ ]+?#\d+[^ .\[]*)((?:\.[A-Za-z0-9_]+|\[\*\])*)(\))?$')


def is_path_leaf(leaf):
    return leaf.startswith('a') and len(leaf) > 1 and leaf[1].isdigit() or leaf.startswith('len(a')


def extend(leaf, suffix):
    """append an access-path suffix to a path leaf; other leaves are unchanged. Paths are cut at
    8 components (k-limiting) so that recursive structures and self-updates reach a fixpoint."""
    if leaf.startswith('a') and len(leaf) > 1 and leaf[1].isdigit():
        if leaf.count('.') + leaf.count('[') >= 8 or leaf.endswith(suffix + suffix):
            return leaf
        if suffix == '[*]' and leaf.endswith('[*]'):
            return leaf
        return leaf + suffix
    return leaf


def const_leaf(c):
    if 'fn' in c:
        return 'fn:' + c['fn']
    if 'def' in c and 'promoted' not in c:
        return 'const:' + c['def'] + ('=' + c['val'] if 'val' in c else '')
    if 'val' in c:
        return 'lit:' + c['val']
    if 'str' in c:
        return 'str:' + c['str']
    return None


_PRIMS = {'u8', 'u16', 'u32', 'u64', 'u128', 'usize', 'i8', 'i16', 'i32', 'i64', 'i128', 'isize',
          'bool', 'char', 'str', '()'}


def split_generic(ty):
    """'a::B<X, Y<Z>>' -> ('a::B', ['X', 'Y<Z>'])"""
    i = ty.find('<')
    if i < 0 or not ty.endswith('>'):
        return ty, []
    base, inner = ty[:i], ty[i + 1:-1]
    args, depth, cur = [], 0, ''
    for ch in inner:
        if ch in '<([':
            depth += 1
        elif ch in '>)]':
            depth -= 1
        if ch == ',' and depth == 0:
            args.append(cur.strip())
            cur = ''
        else:
            cur += ch
    if cur.strip():
        args.append(cur.strip())
    return base, args


class TypeEnv:
    """type-directed path extension: a field suffix is appended to an access path only when the
    path's static type has that field (otherwise the leaf is a dependency, not an alias)"""
    UNKNOWN = None

    def __init__(self, db):
        self.db = db
        self.memo = {}

    def peel(self, ty):
        ty = ty.strip()
        while True:
            if ty.startswith('&mut '):
                ty = ty[5:].strip()
            elif ty.startswith('&'):
                ty = ty[1:].strip()
                if ty.startswith("'"):
                    ty = ty.split(' ', 1)[1] if ' ' in ty else ty
            else:
                base, args = split_generic(ty)
                if base in ('core::option::Option', 'alloc::boxed::Box', 'alloc::rc::Rc', 'alloc::sync::Arc') and args:
                    ty = args[0]
                    continue
                return ty

    def elem(self, ty):
        ty = self.peel(ty)
        base, args = split_generic(ty)
        if base in ('alloc::vec::Vec', 'alloc::collections::vec_deque::VecDeque', 'core::slice::Iter',
                    'alloc::vec::IntoIter') and args:
            return args[0]
        if ty.startswith('[') and ty.endswith(']'):
            inner = ty[1:-1]
            return inner.split(';')[0].strip()
        a = self.db.adts.get(base)
        if a and a['kind'] == 'struct':
            fs = a['variants'][0]['fields']
            if len(fs) == 1 and fs[0]['name'] == '0':
                return self.elem(fs[0]['ty'])     # newtype around a vector (Page)
        if self.known(ty):
            return False
        return self.UNKNOWN

    def known(self, ty):
        ty = self.peel(ty)
        base, _ = split_generic(ty)
        return base in self.db.adts or base in _PRIMS or base.endswith('::Felt') or base.startswith('(')

    def field(self, ty, name):
        """type of field `name` of `ty`; False when ty is known and has no such field; None if unknown"""
        ty = self.peel(ty)
        base, args = split_generic(ty)
        a = self.db.adts.get(base)
        if a is None:
            if ty.startswith('(') and name.isdigit():
                parts = split_generic('T<' + ty[1:-1] + '>')[1]
                i = int(name)
                return parts[i] if i < len(parts) else False
            if base in _PRIMS or base.endswith('::felt::Felt') or ty.startswith('[') \
                    or base.startswith(('alloc::', 'core::', 'std::')):
                return False
            return self.UNKNOWN
        if a['kind'] != 'struct':
            return self.UNKNOWN
        for f in a['variants'][0]['fields']:
            if f['name'] == name:
                ft = f['ty']
                if '::' not in ft and ft not in _PRIMS and not ft.startswith(('&', '[', '(')):
                    return self.UNKNOWN if not args else (args[0] if len(args) == 1 else self.UNKNOWN)
                return ft
        return False

    def path_type(self, root_ty, suffix):
        """type of root_ty followed by the access-path suffix ('.a.b[*].c')"""
        key = (root_ty, suffix)
        if key in self.memo:
            return self.memo[key]
        ty = root_ty
        for m in re.finditer(r'\.([A-Za-z0-9_]+)|\[\*\]', suffix):
            if ty is None or ty is False:
                break
            if m.group(0) == '[*]':
                ty = self.elem(ty)
            else:
                ty = self.field(ty, m.group(1))
        self.memo[key] = ty
        return ty


_TYPEENVS = {}


def typeenv(db):
    te = _TYPEENVS.get(id(db))
    if te is None:
        te = _TYPEENVS[id(db)] = TypeEnv(db)
    return te


class Summary:
    def __init__(self):
        self.ret = set()
        self.outs = {}      # param local -> leaves written through it (&mut)
        self.guards = []    # list of Guard (own + inlined)
        self.ret_fields = {}  # dotted field chain -> leaves of the returned value's field
        self.out_fields = {}  # param local -> {dotted field chain ('' = the whole pointee) -> leaves written there}


_SUMMARY_CACHE = {}


def summary(db, path, binding, depth, opaque, stack):
    generic = bool(db.fns[path].d.get('generics')) if path in db.fns else True
    key = (id(db), path, tuple(sorted(binding.items())) if (binding and generic) else None, frozenset(opaque))
    if key in _SUMMARY_CACHE:
        return _SUMMARY_CACHE[key]
    if path in stack or len(stack) > 40:
        return None
    fn = db.fns[path]
    if not fn.has_mir:
        return None
    # summaries are depth-independent (memoised); only recursion cuts the inlining
    fl = Flow(db, fn, binding, 0, opaque, stack + (path,))
    s = Summary()
    s.ret = set(fl.ret_ok) if cfgmod.returns_result(fn) else set(fl.leaves(0))
    s.ret_fields = {k: set(v) for k, v in fl.agg.get(fl.find(0), {}).items()}
    for k in range(1, fn.arg_count + 1):
        if fn.local_ty(k).startswith('&mut'):
            s.outs[k] = set(fl.out.get(k, set()))
            pre = f'a{k}'
            of = {}
            for key, lv in fl.pw.items():
                if key == pre:
                    of[''] = set(lv)
                elif key.startswith(pre + '.') and '[' not in key:
                    of[key[len(pre) + 1:]] = set(lv)
                elif key.startswith(pre + '.') or key.startswith(pre + '['):
                    of[''] = of.get('', set()) | set(lv)
            s.out_fields[k] = of
    _SUMMARY_CACHE[key] = s
    return s


_SUFFIX_RE = re.compile(r'\.[A-Za-z0-9_]+|\[\*\]')
_LEAF_RE = re.compile(r'^a(\d+)(.*)$')
_SUBST_RE = re.compile(r'^(len\()?a(\d+)(.*?)(\))?$')


class Flow:
    def __init__(self, db, fn, binding=None, depth=0, opaque=None, stack=()):
        if not fn.has_mir:
            raise AnalysisIncomplete('dataflow', f'no MIR for {fn.path}')
        self.db = db
        self.fn = fn
        self.binding = binding or {}
        self.depth = depth
        self.opaque = DEFAULT_OPAQUE if opaque is None else opaque
        self.stack = stack or (fn.path,)
        n = len(fn.locals)
        self.L = [set() for _ in range(n)]
        self.agg = {}            # local -> {field name: set(leaves)}
        self.store = {}          # class -> {first field name: leaves written through a projection}
        self.ret_ok = set()      # leaves of the accepted return value (Ok payload / plain value)
        self.parent = list(range(n))
        self.out = {}            # param local -> leaves written through the &mut param
        self._ext_memo = {}
        self.pw = {}             # access path (a<k>.f...) -> leaves written to it through a projection / &mut
        self.field_writes = []   # (bb, base leaves, field name, leaves, line)
        self.call_ord = {}
        self.site_leaf = {}      # bb -> call leaf for opaque calls
        self._number_calls()
        for k in range(1, fn.arg_count + 1):
            self.L[k].add(f'a{k}')
        self._solve()

    def ext(self, leaf, suffix):
        """type-directed extend"""
        if not (leaf.startswith('a') and len(leaf) > 1 and leaf[1].isdigit()):
            return leaf
        m = _LEAF_RE.match(leaf)
        k = int(m.group(1))
        if k < len(self.fn.locals):
            te = typeenv(self.db)
            t = te.path_type(self.fn.local_ty(k), m.group(2))
            if t is False:
                return leaf
            if t is not None:
                nt = te.elem(t) if suffix == '[*]' else te.field(t, suffix[1:])
                if nt is False:
                    return leaf
        return extend(leaf, suffix)

    def ext_path(self, leaf, suffix):
        if not suffix or not (leaf.startswith('a') and len(leaf) > 1 and leaf[1].isdigit()):
            return leaf
        key = (leaf, suffix)
        r = self._ext_memo.get(key)
        if r is None:
            r = leaf
            for m in _SUFFIX_RE.finditer(suffix):
                r = self.ext(r, m.group(0))
            self._ext_memo[key] = r
        return r

    # ---- union-find for &mut aliases of whole locals ----
    def find(self, x):
        while self.parent[x] != x:
            self.parent[x] = self.parent[self.parent[x]]
            x = self.parent[x]
        return x

    def union(self, a, b):
        ra, rb = self.find(a), self.find(b)
        if ra == rb:
            return False
        # keep parameter locals as representatives
        if 1 <= rb <= self.fn.arg_count:
            ra, rb = rb, ra
        self.parent[rb] = ra
        self.L[ra] |= self.L[rb]
        if rb in self.store:
            m = self.store.setdefault(ra, {})
            for f, v in self.store.pop(rb).items():
                m.setdefault(f, set()).update(v)
        if rb in self.agg:
            m = self.agg.setdefault(ra, {})
            for f, v in self.agg.pop(rb).items():
                m.setdefault(f, set()).update(v)
        return True

    def leaves(self, l):
        r = self.find(l)
        st = self.store.get(r)
        if not st:
            return self.L[r]
        out = set(self.L[r])
        for v in st.values():
            out |= v
        return out

    def _add(self, l, s):
        r = self.find(l)
        before = len(self.L[r])
        self.L[r] |= s
        return len(self.L[r]) != before

    def _number_calls(self):
        cnt = {}
        for bi, t in self.fn.calls():
            p = t['f'].get('resolved') or t['f'].get('path') or 'indirect'
            if not t['f'].get('is_resolved', True):
                p = t['f'].get('path')
            k = cnt.get(p, 0)
            cnt[p] = k + 1
            self.call_ord[bi] = (p, k)

    # ---- reading ----
    def _field_chain(self, proj):
        """(names, n_consumed): the leading run of real field projections (derefs, downcasts and
        wrapper fields are transparent; stops at the first index)"""
        names, i = [], 0
        while i < len(proj):
            e = proj[i]
            if e == '*':
                i += 1
                continue
            if isinstance(e, dict) and 'dc' in e:
                i += 1
                continue
            if isinstance(e, dict) and 'f' in e:
                if e.get('adt') in WRAPPER_ADTS:
                    i += 1
                    continue
                names.append((e.get('n', str(e['f'])), i))
                i += 1
                continue
            break
        return names

    def place_leaves(self, pl):
        base = pl['l']
        proj = pl['p']
        r = self.find(base)
        cur = None
        i = 0
        chain = self._field_chain(proj)
        m = self.agg.get(r)
        if chain and m:
            for n in range(len(chain), 0, -1):
                key = '.'.join(c[0] for c in chain[:n])
                if key in m:
                    cur = set(m[key])
                    i = chain[n - 1][1] + 1
                    break
        if cur is None:
            if chain:
                name, pos = chain[0]
                cur = {self.ext(x, '.' + name) for x in self.L[r]} | set(self.store.get(r, {}).get(name, ()))
                i = pos + 1
            else:
                cur = set(self.leaves(base))
                i = 0
        for e in proj[i:]:
            if e == '*':
                continue
            if isinstance(e, dict) and 'f' in e:
                if e.get('adt') in WRAPPER_ADTS:
                    continue
                name = e.get('n', str(e['f']))
                cur = {self.ext(x, '.' + name) for x in cur}
            elif isinstance(e, dict) and ('i' in e or 'ci' in e or 'sub' in e):
                cur = {self.ext(x, '[*]') for x in cur}
            # downcast: unchanged
        return cur

    def _agg_of_operand(self, op):
        """field map of a whole-local (or deref-of-local) operand, if it has one"""
        pl = op_place(op)
        if pl is None:
            return None
        if any(e != '*' and not (isinstance(e, dict) and ('dc' in e or e.get('adt') in WRAPPER_ADTS)) for e in pl['p']):
            # a projected place: export the sub-map under that field chain
            chain = self._field_chain(pl['p'])
            if len(chain) != sum(1 for e in pl['p'] if isinstance(e, dict) and 'f' in e and e.get('adt') not in WRAPPER_ADTS) \
                    or any(isinstance(e, dict) and ('i' in e or 'ci' in e or 'sub' in e) for e in pl['p']):
                return None
            m = self.agg.get(self.find(pl['l']))
            if not m:
                return None
            pre = '.'.join(c[0] for c in chain) + '.'
            sub = {k[len(pre):]: v for k, v in m.items() if k.startswith(pre)}
            return sub or None
        return self.agg.get(self.find(pl['l']))

    def _merge_agg(self, r, prefix, src):
        ch = False
        if not src:
            return False
        m = self.agg.setdefault(r, {})
        for k, v in list(src.items()):
            key = prefix + k
            if key.count('.') > 6:
                continue
            t = m.setdefault(key, set())
            n0 = len(t)
            t |= v
            ch |= len(t) != n0
        return ch

    def operand_leaves(self, op):
        pl = op_place(op)
        if pl is not None:
            return self.place_leaves(pl)
        c = op['c']
        if 'promoted' in c:
            out = set()
            proms = self.fn.d.get('promoted', [])
            if c['promoted'] < len(proms):
                for item in proms[c['promoted']]:
                    out |= self._promoted_item_leaves(item)
            return out
        lf = const_leaf(c)
        return {lf} if lf else set()

    def _promoted_item_leaves(self, item):
        out = set()
        if item.get('k') == 'call':
            nm = item['f'].get('name', '')
            if nm in OPS:
                out.add('op:' + OPS[nm])
            for a in item.get('args', []):
                if 'c' in a:
                    lf = const_leaf(a['c'])
                    if lf:
                        out.add(lf)
            return out
        for key in ('a', 'b'):
            o = item.get(key)
            if isinstance(o, dict) and 'c' in o:
                lf = const_leaf(o['c'])
                if lf:
                    out.add(lf)
        for o in item.get('ops', []) or []:
            if 'c' in o:
                lf = const_leaf(o['c'])
                if lf:
                    out.add(lf)
        if item.get('k') == 'bin':
            out.add('op:' + BINOP.get(item['op'], item['op'].lower()))
        return out

    def rvalue_leaves(self, rv):
        k = rv['k']
        if k == 'use' or k == 'repeat':
            return self.operand_leaves(rv['a'])
        if k in ('ref', 'rawptr', 'discr'):
            return self.place_leaves(rv['place'])
        if k == 'bin':
            s = self.operand_leaves(rv['a']) | self.operand_leaves(rv['b'])
            s.add('op:' + BINOP.get(rv['op'], rv['op'].lower()))
            return s
        if k == 'un':
            s = set(self.operand_leaves(rv['a']))
            if rv['op'] == 'PtrMetadata':
                return {('len(' + x + ')') if is_path_leaf(x) and not x.startswith('len(') else x for x in s}
            if rv['op'] == 'Neg':
                s.add('op:neg')
            return s
        if k == 'cast':
            return self.operand_leaves(rv['a'])
        if k == 'agg':
            s = set()
            for o in rv['ops']:
                s |= self.operand_leaves(o)
            if rv.get('agg') == 'closure':
                s.add('closure:' + rv['closure'])
            return s
        return set()

    # ---- solving ----
    def _solve(self):
        fn = self.fn
        # alias pass: _x = &mut _y (whole local)  => same class
        for b in fn.blocks:
            if b.get('cleanup'):
                continue
            for s in b['stmts']:
                if s['k'] == 'assign' and s['rv']['k'] == 'ref' and s['rv'].get('mut') \
                        and not s['place']['p']:
                    src = s['rv']['place']
                    if all(e == '*' for e in src['p']):
                        self.union(s['place']['l'], src['l'])
                # raw pointers obtained by casting (vec! / Box internals): writes through the
                # pointer must reach the owner
                if s['k'] == 'assign' and s['rv']['k'] == 'cast' and not s['place']['p'] \
                        and s['rv'].get('to', '').startswith('*'):
                    src = op_place(s['rv']['a'])
                    if src is not None:
                        self.union(s['place']['l'], src['l'])
                if s['k'] == 'assign' and s['rv']['k'] == 'rawptr' and not s['place']['p']:
                    self.union(s['place']['l'], s['rv']['place']['l'])
        changed = True
        rounds = 0
        while changed:
            changed = False
            rounds += 1
            if rounds > 60:
                raise AnalysisIncomplete('dataflow', f'no fixpoint in {fn.path}')
            for bi, b in enumerate(fn.blocks):
                if b.get('cleanup'):
                    continue
                for s in b['stmts']:
                    if s['k'] != 'assign':
                        continue
                    changed |= self._assign(bi, s['place'], s['rv'], s.get('line'))
                t = b['term']
                if t['k'] == 'call':
                    changed |= self._call(bi, t)

    def _write(self, bi, place, leaves, line):
        """write `leaves` into place; returns True when something changed"""
        ch = False
        l = place['l']
        proj = place['p']
        fields = [e for e in proj if isinstance(e, dict) and 'f' in e]
        if not proj:
            return self._add(l, leaves)
        # projection write: weak update kept apart from the base's own leaves (so that
        # self.f = g(self.f) does not make the access paths grow)
        r = self.find(l)
        real_fields = [e for e in fields if e.get('adt') not in WRAPPER_ADTS]
        if real_fields:
            name = real_fields[0].get('n', str(real_fields[0]['f']))
            st = self.store.setdefault(r, {}).setdefault(name, set())
            n0 = len(st)
            st |= leaves
            ch |= len(st) != n0
        else:
            ch |= self._add(l, leaves)
        base = self.L[r]
        # the access paths this write lands on
        tgt = set()
        if self.fn.local_ty(l).startswith(('&', '*')) and len(base) <= 12:
            tgt = set(x for x in base if x.startswith('a') and x[1:2].isdigit())
        for e in proj:
            if e == '*':
                continue
            if isinstance(e, dict) and 'f' in e and e.get('adt') not in WRAPPER_ADTS:
                tgt = {self.ext(x, '.' + e.get('n', str(e['f']))) for x in tgt}
            elif isinstance(e, dict) and ('i' in e or 'ci' in e or 'sub' in e):
                tgt = {self.ext(x, '[*]') for x in tgt}
        for x in tgt:
            w = self.pw.setdefault(x, set())
            n0 = len(w)
            w |= leaves
            ch |= len(w) != n0
            k = int(_LEAF_RE.match(x).group(1))
            if k <= self.fn.arg_count and self.fn.local_ty(k).startswith('&mut'):
                o = self.out.setdefault(k, set())
                n0 = len(o)
                o |= leaves
                ch |= len(o) != n0
        if fields:
            name = fields[-1].get('n', '?')
            rec = (bi, name, fields[-1].get('adt'))
            cur = None
            for fw in self.field_writes:
                if fw[0] == rec:
                    cur = fw
            if cur is None:
                self.field_writes.append((rec, set(leaves), line))
            else:
                cur[1].update(leaves)
        return ch

    def _assign(self, bi, place, rv, line):
        leaves = self.rvalue_leaves(rv)
        ch = self._write(bi, place, leaves, line)
        if place['l'] == 0 and not place['p']:
            if not (rv['k'] == 'agg' and rv.get('adt') == 'core::result::Result' and rv.get('variant') == 'Err'):
                n0 = len(self.ret_ok)
                self.ret_ok |= leaves
                ch |= len(self.ret_ok) != n0
        if rv['k'] == 'agg' and rv.get('agg') == 'array' and not place['p'] and 1 <= len(rv['ops']) <= 8:
            r = self.find(place['l'])
            m = self.agg.setdefault(r, {})
            for i_, o in enumerate(rv['ops']):
                s_ = m.setdefault(f'#{i_}', set())
                n0 = len(s_)
                s_ |= self.operand_leaves(o)
                ch |= len(s_) != n0
                ch |= self._merge_agg(r, f'#{i_}.', self._agg_of_operand(o))
        if rv['k'] == 'agg' and rv.get('agg') in ('adt', 'tuple', 'closure') and not place['p']:
            r = self.find(place['l'])
            names = rv.get('fields') or [str(i) for i in range(len(rv['ops']))]
            if rv.get('agg') == 'adt' and rv.get('adt') in WRAPPER_ADTS:
                # Ok(x) / Some(x): the payload's field map is the wrapper's
                if len(rv['ops']) == 1 and not (rv.get('variant') == 'Err'):
                    ch |= self._merge_agg(r, '', self._agg_of_operand(rv['ops'][0]))
                return ch
            m = self.agg.setdefault(r, {})
            for n, o in zip(names, rv['ops']):
                s = m.setdefault(n, set())
                n0 = len(s)
                s |= self.operand_leaves(o)
                ch |= len(s) != n0
                ch |= self._merge_agg(r, n + '.', self._agg_of_operand(o))
        elif (rv['k'] in ('use', 'ref') or (rv['k'] == 'cast' and 'Unsize' in rv.get('ck', ''))) and not place['p']:
            # (&[T; N] -> &[T] is the same rows: a literal table walked through .iter() keeps them apart)
            src = {'cp': rv['place']} if rv['k'] == 'ref' else rv['a']
            sub = self._agg_of_operand(src)
            if sub:
                rd = self.find(place['l'])
                pl = op_place(src)
                if not (pl is not None and self.find(pl['l']) == rd and not any(isinstance(e, dict) for e in pl['p'])):
                    ch |= self._merge_agg(rd, '', sub)
        return ch

    def _mut_arg_targets(self, t):
        """indices of args passed as &mut"""
        out = []
        for j, a in enumerate(t.get('args', [])):
            pl = op_place(a)
            if pl is not None and self.fn.local_ty(pl['l']).startswith('&mut') and not pl['p']:
                out.append(j)
        return out

    def _call(self, bi, t):
        f = t['f']
        args = t.get('args', [])
        dest = t['dest']
        name = f.get('name', '')
        argl = [self.operand_leaves(a) for a in args]
        ch = False
        res = None
        targets = [] if f.get('indirect') else self.db.resolve(f, self.binding)
        path = f.get('resolved') if f.get('is_resolved') else f.get('path')
        local_targets = [p for p in targets if p not in self.opaque and self.db.fns[p].has_mir]
        site = None
        if local_targets:
            res = set()
            inlined = False
            for p in local_targets:
                s = summary(self.db, p, self.binding, self.depth + 1, self.opaque, self.stack)
                if s is None:
                    continue
                inlined = True
                callee = self.db.fns[p]
                aggs = self.arg_aggs(args)
                res |= self._subst(s.ret, argl, bi, argaggs=aggs)
                if s.ret_fields and not dest['p']:
                    sub = {k: self._subst(v, argl, bi, argaggs=aggs) for k, v in s.ret_fields.items()}
                    ch |= self._merge_agg(self.find(dest['l']), '', sub)
                for k, leaves in s.outs.items():
                    if k - 1 < len(args):
                        pl = op_place(args[k - 1])
                        if pl is not None:
                            of = s.out_fields.get(k) or {}
                            if of and '' not in of and not pl['p']:
                                # the callee writes named fields only: keep them apart in the caller as well
                                for chain, lv in of.items():
                                    proj = ['*'] + [{'f': 0, 'n': nm} for nm in chain.split('.')]
                                    ch |= self._write(bi, {'l': pl['l'], 'p': proj},
                                                      self._subst(lv, argl, bi, argaggs=aggs), t.get('line'))
                            else:
                                ch |= self._write(bi, {'l': pl['l'], 'p': ['*']},
                                                  self._subst(leaves, argl, bi, argaggs=aggs), t.get('line'))
            if not inlined:
                res = None
        if res is None:
            nm = name
            std = not any(p in self.db.fns for p in targets)
            if std and nm in LEN_OF_ARG0 and argl:
                res = {('len(' + x + ')') if is_path_leaf(x) and not x.startswith('len(') else x
                       for x in argl[0]}
            elif std and nm == 'new' and 'RangeInclusive' in (f.get('full') or f.get('path') or '') and len(argl) == 2:
                # lo..=hi: keep the two bounds apart (a `contains` test is two comparisons)
                res = set(argl[0]) | set(argl[1])
                if not dest['p']:
                    ch |= self._merge_agg(self.find(dest['l']), '', {'start': set(argl[0]), 'end': set(argl[1])})
            elif std and nm == 'zip' and len(argl) == 2:
                # Iterator::zip: items are pairs (item of the receiver, item of the argument); the pair's fields
                # keep their own sources
                res = set(argl[0]) | set(argl[1])
                if not dest['p']:
                    ch |= self._merge_agg(self.find(dest['l']), '', {'0': set(argl[0]), '1': set(argl[1])})
            elif std and nm in ELEMENT_OF_ARG0 and argl:
                res = {self.ext(x, '[*]') for x in argl[0]}
                if not dest['p'] and nm in ('next', 'next_back', 'peek', 'nth'):
                    m0 = self._agg_of_operand(args[0])
                    if m0:
                        ch |= self._merge_agg(self.find(dest['l']), '', {k: {self.ext(x, '[*]') for x in v} for k, v in m0.items()})
                # a constant index is kept as a separate leaf (which element was selected)
                if len(argl) > 1 and len(argl[1]) == 1:
                    for x in argl[1]:
                        if x.startswith('const:') or x.startswith('lit:'):
                            res.add('idx:' + x.split(':', 1)[1])
                        elif re.fullmatch(r'a\d+', x):
                            # indexed by a parameter: which element was selected is known at the call site
                            res.add('idxof:' + x)
            elif std and nm in TRANSPARENT_ARG0 and argl:
                res = set(argl[0])
                if not dest['p']:
                    ch |= self._merge_agg(self.find(dest['l']), '', self._agg_of_operand(args[0]))
                # higher-order adaptors keep their closure's effect
                for ai_, a in enumerate(argl[1:], 1):
                    res |= self._closure_effect(a, argl, bi, self._agg_of_operand(args[ai_]))
            else:
                res = set()
                for a in argl:
                    res |= a
                for ai_, a in enumerate(argl):
                    res |= self._closure_effect(a, argl, bi, self._agg_of_operand(args[ai_]))
                if nm in OPS:
                    res.add('op:' + OPS[nm])
                else:
                    p, k = self.call_ord.get(bi, (path, 0))
                    site = f'call:{p}#{k}'
                    res.add(site)
                    self.site_leaf[bi] = site
                # external call with &mut args: the pointee receives the other args
                for j in self._mut_arg_targets(t):
                    pl = op_place(args[j])
                    others = set()
                    for i2, a in enumerate(argl):
                        if i2 != j:
                            others |= a
                            others |= self._closure_effect(a, argl, bi)
                    if nm in OPS:
                        others.add('op:' + OPS[nm])
                        if nm.endswith('_assign'):
                            others |= argl[j]      # x op= y also depends on the old x
                    if site and targets:
                        others.add(site)
                    ch |= self._write(bi, {'l': pl['l'], 'p': ['*']}, others, t.get('line'))
        ch |= self._write(bi, dest, res, t.get('line'))
        # an external accessor handing back a reference derived from a &mut argument aliases it
        if not local_targets and not dest['p'] and args and self.fn.local_ty(dest['l']).startswith('&mut'):
            p0 = op_place(args[0])
            if p0 is not None and not p0['p'] and self.fn.local_ty(p0['l']).startswith('&mut'):
                ch |= self.union(dest['l'], p0['l'])
        if dest['l'] == 0 and not dest['p'] and f.get('path') != cfgmod.FROM_RESIDUAL:
            n0 = len(self.ret_ok)
            self.ret_ok |= res
            ch |= len(self.ret_ok) != n0
        return ch

    def _closure_effect(self, leaves, argl, bi, envagg=None):
        """for closure values among `leaves`: the closure body's result with its parameters bound
        to the elements of the other arguments; envagg = the per-capture field map of the closure value"""
        out = set()
        for lf in leaves:
            if not lf.startswith('closure:'):
                continue
            p = lf[len('closure:'):]
            if p not in self.db.fns or not self.db.fns[p].has_mir or p in self.stack:
                continue
            s = summary(self.db, p, self.binding, self.depth + 1, self.opaque, self.stack)
            if s is None:
                continue
            elems = set()
            for a in argl:
                for x in a:
                    if not x.startswith('closure:'):
                        elems.add(self.ext(x, '[*]'))
            cfn = self.db.fns[p]
            # closure arg 1 = environment (captures): approximated by the closure value's leaves
            actual = [set(x for x in leaves if not x.startswith('closure:'))]
            actual += [elems for _ in range(cfn.arg_count - 1)]
            out |= self._subst(s.ret, actual, bi, env_arg=True, argaggs=[envagg] + [None] * (len(actual) - 1) if envagg else None)
        return out

    def _subst(self, leaves, argl, bi, env_arg=False, argaggs=None):
        out = set()
        for lf in leaves:
            m = _SUBST_RE.match(lf)
            if m and (m.group(1) is None) == (m.group(4) is None):
                k = int(m.group(2))
                suffix = m.group(3)
                if k - 1 < len(argl):
                    src = argl[k - 1]
                    # precise field map of the actual argument, if it has one
                    precise = False
                    if argaggs is not None and k - 1 < len(argaggs) and argaggs[k - 1] and suffix.startswith('.'):
                        parts = _SUFFIX_RE.findall(suffix)
                        names = []
                        for p_ in parts:
                            if p_ == '[*]':
                                break
                            names.append(p_[1:])
                        for n in range(len(names), 0, -1):
                            key = '.'.join(names[:n])
                            if key in argaggs[k - 1]:
                                src = argaggs[k - 1][key]
                                suffix = ''.join(parts[n:])
                                precise = True
                                break
                    for x in src:
                        if env_arg and k == 1 and not precise:
                            # captured variables: drop the capture field index (.0/.1) of the env
                            suffix2 = re.sub(r'^\.\d+', '', suffix)
                            y = self.ext_path(x, suffix2)
                        else:
                            y = self.ext_path(x, suffix)
                        if m.group(1) and is_path_leaf(y) and not y.startswith('len('):
                            y = 'len(' + y + ')'
                        out.add(y)
                continue
            if lf.startswith('idxof:a'):
                k = int(lf[7:])
                if k - 1 < len(argl) and len(argl[k - 1]) == 1:
                    for x in argl[k - 1]:
                        if x.startswith('const:') or x.startswith('lit:'):
                            out.add('idx:' + x.split(':', 1)[1])
                        elif re.fullmatch(r'a\d+', x):
                            out.add('idxof:' + x)
                continue
            if lf.startswith('call:'):
                p, k = self.call_ord.get(bi, ('?', 0))
                out.add(f'{lf}/{p.split("::")[-1]}#{k}')
                continue
            out.add(lf)
        return out

    def arg_aggs(self, args):
        return [self._agg_of_operand(a) for a in args]


# =============== guards (A6) ===============

REL_OF_CALL = {'eq': 'EQ', 'ne': 'NE', 'lt': 'LT', 'le': 'LE', 'gt': 'GT', 'ge': 'GE'}
REL_OF_BIN = {'Eq': 'EQ', 'Ne': 'NE', 'Lt': 'LT', 'Le': 'LE', 'Gt': 'GT', 'Ge': 'GE'}
NEG = {'EQ': 'NE', 'NE': 'EQ', 'LT': 'GE', 'GE': 'LT', 'LE': 'GT', 'GT': 'LE',
       'TRUE': 'FALSE', 'FALSE': 'TRUE', 'SOME': 'NONE', 'NONE': 'SOME', 'IN': 'NOTIN', 'NOTIN': 'IN', 'INRANGE': 'NOTIN',
       'EMPTY': 'NONEMPTY', 'NONEMPTY': 'EMPTY'}


class Guard:
    """relation that must hold for the function to continue towards an accepting exit"""

    def __init__(self, rel, lhs, rhs, fn, bb, line, reject, covers):
        # normalise to EQ / NE / LT / LE (ordered for LT/LE)
        if rel == 'GT':
            rel, lhs, rhs = 'LT', rhs, lhs
        elif rel == 'GE':
            rel, lhs, rhs = 'LE', rhs, lhs
        self.rel, self.lhs, self.rhs = rel, frozenset(lhs), frozenset(rhs)
        self.fn, self.bb, self.line = fn, bb, line
        self.reject = reject      # 'err' | 'panic'
        self.covers = covers      # 'all' | 'iteration' | 'some'
        self.via = []

    def key(self):
        return f'{self.rel}({",".join(sorted(self.lhs))} ; {",".join(sorted(self.rhs))})'

    def __repr__(self):
        return f'<{self.key()} @{self.fn.split("::")[-1]}:{self.line} {self.reject}/{self.covers}>'


def _bool_origin(fn, fl, local, defs, neg=False, depth=0):
    """describe how a bool local is computed: (rel, lhs leaves, rhs leaves) or None"""
    ds = defs.get(local, [])
    if len(ds) != 1 or depth > 6:
        return None
    bi, kind, x = ds[0]
    if kind == 'assign':
        rv = x
        if rv['k'] == 'bin' and rv['op'] in REL_OF_BIN:
            rel = REL_OF_BIN[rv['op']]
            return (NEG[rel] if neg else rel, fl.operand_leaves(rv['a']), fl.operand_leaves(rv['b']))
        if rv['k'] == 'un' and rv['op'] == 'Not':
            pl = op_place(rv['a'])
            if pl is not None and not pl['p']:
                return _bool_origin(fn, fl, pl['l'], defs, not neg, depth + 1)
        if rv['k'] == 'use':
            pl = op_place(rv['a'])
            if pl is not None and not pl['p']:
                return _bool_origin(fn, fl, pl['l'], defs, neg, depth + 1)
        return None
    t = x
    name = t['f'].get('name', '')
    tr = t['f'].get('trait', '')
    args = t.get('args', [])
    if name in REL_OF_CALL and tr.startswith('core::cmp::') and len(args) == 2:
        rel = REL_OF_CALL[name]
        return (NEG[rel] if neg else rel, fl.operand_leaves(args[0]), fl.operand_leaves(args[1]))
    if name in ('is_some', 'is_ok') and args:
        return ('NONE' if neg else 'SOME', fl.operand_leaves(args[0]), set())
    if name in ('is_none', 'is_err') and args:
        return ('SOME' if neg else 'NONE', fl.operand_leaves(args[0]), set())
    if name == 'is_empty' and args:
        return ('NONEMPTY' if neg else 'EMPTY', fl.operand_leaves(args[0]), set())
    if name == 'contains' and len(args) == 2:
        full = t['f'].get('full') or t['f'].get('path') or ''
        m = fl._agg_of_operand(args[0]) if 'ops::range::Range' in full else None
        if m and 'start' in m and 'end' in m and not neg:
            # lo <= x (and x <= hi, or x < hi for a half-open range): reported as two guards by own_guards
            return ('INRANGE', fl.operand_leaves(args[1]), (set(m['start']), set(m['end']), 'RangeInclusive' in full))
        return ('NOTIN' if neg else 'IN', fl.operand_leaves(args[1]), fl.operand_leaves(args[0]))
    # a local predicate function: remember which, so that a guard requiring it to be true can be
    # expanded into the comparisons the predicate itself requires
    s = set()
    for a in args:
        s |= fl.operand_leaves(a)
    return ('FALSE' if neg else 'TRUE', s | {'pred:' + (t['f'].get('resolved') or t['f'].get('path') or '?')}, set(), t)


def _expand_predicate(db, fn, fl, t, bi, line, reject, cov, depth=0):
    """guards required for the local bool function called by `t` to return true, in fn's namespace"""
    targets = [p for p in db.resolve(t['f'], fl.binding) if db.fns[p].has_mir]
    if len(targets) != 1 or depth > 3:
        return None
    callee = db.fns[targets[0]]
    if not cfgmod.returns_bool(callee):
        return None
    cfl = Flow(db, callee, fl.binding)
    cdefs = common.defs_of(callee)
    conj = []
    for g in own_guards(db, callee, cfl):
        if getattr(g, 'kind', None) in ('bounds',) or g.covers != 'all':
            continue
        conj.append((g.rel, g.lhs, g.rhs))
    # the value finally returned (non-constant definitions of the return place)
    finals = []
    for dbi, kind, x in cdefs.get(0, []):
        if kind == 'assign' and x['k'] == 'use' and 'c' in x['a']:
            continue
        if kind == 'assign' and x['k'] == 'use':
            pl = op_place(x['a'])
            if pl is not None and not pl['p']:
                o = _bool_origin(callee, cfl, pl['l'], cdefs)
                if o is None or len(o) > 3:
                    return None
                finals.append(o)
                continue
        if kind == 'assign' and x['k'] == 'bin' and x['op'] in REL_OF_BIN:
            finals.append((REL_OF_BIN[x['op']], cfl.operand_leaves(x['a']), cfl.operand_leaves(x['b'])))
            continue
        if kind == 'call':
            name = x['f'].get('name', '')
            if name in REL_OF_CALL and x['f'].get('trait', '').startswith('core::cmp::') and len(x.get('args', [])) == 2:
                finals.append((REL_OF_CALL[name], cfl.operand_leaves(x['args'][0]), cfl.operand_leaves(x['args'][1])))
                continue
        return None
    if len(finals) > 1:
        return None
    conj += finals
    if not conj:
        return None
    argl = [fl.operand_leaves(a) for a in t.get('args', [])]
    aggs = fl.arg_aggs(t.get('args', []))
    out = []
    for rel, lhs, rhs in conj:
        g = Guard(rel, fl._subst(lhs, argl, bi, argaggs=aggs), fl._subst(rhs, argl, bi, argaggs=aggs), fn.path, bi, line, reject, cov)
        g.via = ['predicate ' + callee.path]
        out.append(g)
    return out


def loop_of(fn, bb):
    """innermost natural loop (latch, header) containing bb, or None"""
    best = None
    for latch, header in fn.backedges:
        body = natural_loop(fn, latch, header)
        if bb in body and (best is None or len(body) < best[1]):
            best = ((latch, header), len(body))
    return best[0] if best else None


def natural_loop(fn, latch, header):
    body = {header, latch}
    st = [latch]
    while st:
        b = st.pop()
        if b == header:
            continue
        for p in fn.pred(b):
            if p not in body:
                body.add(p)
                st.append(p)
    return body


HASH_SINKS = {
    'starknet_crypto::pedersen_hash::pedersen_hash': 'pedersen',
    'starknet_crypto::poseidon_hash::poseidon_hash': 'poseidon',
    'starknet_crypto::poseidon_hash::poseidon_hash_many': 'poseidon',
    '<D as digest::digest::Digest>::update': 'digest',
    '<D as digest::digest::Digest>::chain_update': 'digest',
    '<D as digest::digest::Digest>::digest': 'digest',
}


def own_sinks(db, fn, fl):
    """pseudo-guards of relation HASH: the arguments of hash primitives"""
    ra = cfgmod.reach_accept(fn)
    out = []
    for bi, t in fn.calls():
        p = t['f'].get('resolved') or t['f'].get('path')
        if p in HASH_SINKS:
            leaves = set()
            for a in t.get('args', []):
                leaves |= fl.operand_leaves(a)
                leaves |= fl._closure_effect(fl.operand_leaves(a), [fl.operand_leaves(x) for x in t['args']], bi)
            g = Guard('HASH', leaves, set(), fn.path, bi, t['line'], 'n/a', _covers(fn, bi, ra))
            g.kind = 'hash:' + HASH_SINKS[p]
            out.append(g)
    return out


DRIVERS = {'collect', 'fold', 'for_each', 'extend', 'sum', 'count', 'product', 'any', 'all', 'position',
           'last', 'max', 'min', 'try_fold', 'try_for_each', 'unzip', 'find', 'nth', 'max_by', 'min_by',
           'max_by_key', 'min_by_key', 'reduce', 'partition', 'find_map', 'rposition', 'collect_into'}
ALLOCS = {'with_capacity': 0, 'from_elem': 1, 'resize': 1, 'reserve': 1, 'reserve_exact': 1, 'repeat': 1,
          'resize_with': 1, 'with_capacity_in': 0}
NUMERIC_ITER = ('core::ops::range::Range<', 'core::ops::range::RangeInclusive<', 'core::iter::sources::repeat',
                'core::iter::sources::successors', 'core::iter::sources::from_fn', 'core::ops::range::RangeFrom<',
                'core::iter::adapters::cycle')


def _range_root_leaves(fn, fl, local, defs=None, depth=0):
    """leaves of the Range (or other counting source) at the root of an adaptor chain"""
    if defs is None:
        defs = common.defs_of(fn)
    ty = fn.local_ty(local)
    ds = defs.get(local, [])
    if depth > 10 or len(ds) != 1:
        return fl.leaves(local)
    bi, kind, x = ds[0]
    if kind == 'assign':
        if x['k'] == 'agg':
            out = set()
            for o in x['ops']:
                out |= fl.operand_leaves(o)
            return out
        if x['k'] == 'use':
            pl = op_place(x['a'])
            if pl is not None and not pl['p']:
                return _range_root_leaves(fn, fl, pl['l'], defs, depth + 1)
        return fl.leaves(local)
    args = x.get('args', [])
    if args:
        pl = op_place(args[0])
        if pl is not None and not pl['p'] and any(k in fn.local_ty(pl['l']) for k in NUMERIC_ITER):
            return _range_root_leaves(fn, fl, pl['l'], defs, depth + 1)
    return fl.leaves(local)


def own_iter_sites(db, fn, fl):
    """pseudo-guards of relation ITER: one per loop / iterator pipeline / size-taking allocation.
    lhs = the leaves that bound the iteration count (empty for data-driven sites)."""
    ra = cfgmod.reach_accept(fn)
    out = []

    def site(kind, leaves, bi, line, root):
        g = Guard('ITER', leaves, set(), fn.path, bi, line, 'n/a', 'some')
        g.kind = 'iter:' + kind
        g.root = root
        out.append(g)
    seen_next = set()
    for latch, header in fn.backedges:
        body = natural_loop(fn, latch, header)
        nexts = []
        for bi in body:
            t = fn.blocks[bi]['term']
            if t['k'] == 'call' and t['f'].get('name') in ('next', 'next_back') and t.get('args'):
                nexts.append((bi, t))
        line = fn.blocks[header]['term']['line']
        if nexts:
            leaves, roots = set(), set()
            for bi, t in nexts:
                seen_next.add(bi)
                pl = op_place(t['args'][0])
                ty = fn.local_ty(pl['l']) if pl else ''
                if any(k in ty for k in NUMERIC_ITER):
                    roots.add('range')
                    leaves |= fl.operand_leaves(t['args'][0])
                else:
                    roots.add('data')
            site('loop', leaves, header, line, 'range' if 'range' in roots else 'data')
        else:
            # condition-driven loop: the operands of every exit test
            defs = common.defs_of(fn)
            leaves = set()
            for bi in body:
                t = fn.blocks[bi]['term']
                if t['k'] != 'switch':
                    continue
                if all(s2 in body or s2 not in ra for s2 in fn.succ(bi)):
                    continue        # no accepting exit here (e.g. the error arm of `?`)
                pl = op_place(t['op'])
                if pl is None:
                    continue
                if t['ty'] == 'bool':
                    o = _bool_origin(fn, fl, pl['l'], defs)
                    if o and o[0] in ('EMPTY', 'NONEMPTY'):
                        continue        # runs while a container is non-empty: data-driven
                    if o:
                        leaves |= o[1] | o[2]
                else:
                    # `while let Some(x) = v.first()` / `.pop()` / `.split_first()`: runs while a container has
                    # elements -- data-driven like `while !v.is_empty()`
                    ds = defs.get(pl['l'], []) if not pl['p'] else []
                    acc = None
                    if len(ds) == 1 and ds[0][1] == 'assign' and ds[0][2].get('k') == 'discr':
                        src = ds[0][2]['place']
                        d2 = defs.get(src['l'], [])
                        if len(d2) == 1 and d2[0][1] == 'call':
                            acc = d2[0][2]['f'].get('name')
                    if acc in ('first', 'last', 'pop', 'pop_front', 'pop_back', 'split_first', 'split_last', 'peek', 'first_mut', 'front', 'back'):
                        continue
                    leaves |= fl.operand_leaves(t['op'])
            site('loop', leaves, header, line, 'cond' if leaves else 'data')
    for bi, t in fn.calls():
        nm = t['f'].get('name')
        args = t.get('args', [])
        if nm in DRIVERS and args and not db.resolve(t['f']):
            pl = op_place(args[0])
            tys = [fn.local_ty(op_place(a)['l']) for a in args if op_place(a) is not None]
            it_tys = [x for x in tys if 'core::iter::' in x or 'core::slice::iter' in x or 'core::ops::range' in x
                      or 'alloc::vec::into_iter' in x or 'alloc::vec::drain' in x]
            if not it_tys:
                continue
            if any(k in x for x in it_tys for k in NUMERIC_ITER):
                leaves = set()
                for a in args:
                    p2 = op_place(a)
                    if p2 is not None and any(k in fn.local_ty(p2['l']) for k in NUMERIC_ITER):
                        leaves |= _range_root_leaves(fn, fl, p2['l'])
                site('pipeline', leaves, bi, t['line'], 'range')
            else:
                site('pipeline', set(), bi, t['line'], 'data')
        elif nm in ALLOCS and not db.resolve(t['f']) and len(args) > ALLOCS[nm]:
            site('alloc', fl.operand_leaves(args[ALLOCS[nm]]), bi, t['line'], 'size')
    return out


def own_guards(db, fn, fl):
    """guards formed by SwitchInt on a comparison result (or Option/Result discriminant, or
    integer match) with at least one live arm that cannot reach an accepting exit"""
    ra = cfgmod.reach_accept(fn)
    defs = common.defs_of(fn)
    out = []
    for bi, b in enumerate(fn.blocks):
        if b.get('cleanup') or bi not in ra and False:
            continue
        t = b['term']
        if t['k'] == 'assert':
            kind = t.get('msg')
            if kind in ('MisalignedPtr', 'NullPtr'):
                continue
            ops = t.get('ops', [])
            if kind == 'BoundsCheck' and len(ops) == 2:
                g = Guard('LT', fl.operand_leaves(ops[1]), fl.operand_leaves(ops[0]), fn.path, bi,
                          t['line'], 'panic', _covers(fn, bi, ra))
                g.kind = 'bounds'
                out.append(g)
            continue
        if t['k'] != 'switch':
            continue
        arms = [(v, tgt) for v, tgt in t['targets']] + [('otherwise', t['otherwise'])]
        live = [(v, tgt) for v, tgt in arms if fn.blocks[tgt]['term']['k'] != 'unreachable']
        dead = [(v, tgt) for v, tgt in live if tgt not in ra]
        alive = [(v, tgt) for v, tgt in live if tgt in ra]
        if not dead or not alive:
            continue
        pl = op_place(t['op'])
        if pl is None or pl['p']:
            continue
        reject = _reject_kind(fn, [tgt for _, tgt in dead])
        cov = _covers(fn, bi, ra)
        if t['ty'] == 'bool':
            origin = _bool_origin(fn, fl, pl['l'], defs)
            if origin is None:
                continue
            rel, lhs, rhs = origin[0], origin[1], origin[2]
            predcall = origin[3] if len(origin) > 3 else None
            # value 0 = false. Acceptance requires the branch taken to be an alive one.
            accept_true = any(v == 'otherwise' or v != '0' for v, _ in alive)
            accept_false = any(v == '0' for v, _ in alive)
            if accept_true and accept_false:
                continue
            if accept_false:
                rel = NEG[rel]
            expanded = None
            if predcall is not None and rel == 'TRUE':
                expanded = _expand_predicate(db, fn, fl, predcall, bi, t['line'], reject, cov)
            if expanded:
                out.extend(expanded)
            elif rel == 'INRANGE':
                lo, hi, incl = rhs
                out.append(Guard('LE', lo, lhs, fn.path, bi, t['line'], reject, cov))
                out.append(Guard('LE' if incl else 'LT', lhs, hi, fn.path, bi, t['line'], reject, cov))
            else:
                out.append(Guard(rel, lhs, rhs, fn.path, bi, t['line'], reject, cov))
        else:
            # discriminant / integer match: record which values keep the path alive
            ds = defs.get(pl['l'], [])
            src = set()
            is_discr = False
            if len(ds) == 1 and ds[0][1] == 'assign' and ds[0][2]['k'] == 'discr':
                src = fl.place_leaves(ds[0][2]['place'])
                is_discr = True
                # an Option produced by a checked lookup: its None-ness is "index within length"
                dpl = ds[0][2]['place']
                dd = defs.get(dpl['l'], []) if not dpl['p'] else []
                # look through `?` (Try::branch) and plain moves
                for _hop in range(3):
                    if len(dd) == 1 and dd[0][1] == 'call' and dd[0][2]['f'].get('name') == 'branch' and dd[0][2].get('args'):
                        p0 = op_place(dd[0][2]['args'][0])
                        dd = defs.get(p0['l'], []) if p0 is not None and not p0['p'] else []
                    elif len(dd) == 1 and dd[0][1] == 'assign' and dd[0][2]['k'] == 'use':
                        p0 = op_place(dd[0][2]['a'])
                        dd = defs.get(p0['l'], []) if p0 is not None and not p0['p'] else []
                    else:
                        break
                if len(dd) == 1 and dd[0][1] == 'call' and dd[0][2]['f'].get('name') in ('get', 'get_mut', 'checked_sub', 'checked_add',
                                                                                   'checked_mul', 'split_at_checked', 'first', 'last'):
                    ct = dd[0][2]
                    if not db.resolve(ct['f']):
                        cargs = ct.get('args', [])
                        for a in cargs[1:]:
                            src = src | fl.operand_leaves(a)
                        if cargs and ct['f'].get('name') in ('get', 'get_mut', 'first', 'last', 'split_at_checked'):
                            src = src | {('len(' + x + ')') for x in fl.operand_leaves(cargs[0]) if is_path_leaf(x) and not x.startswith('len(')}
            else:
                src = fl.operand_leaves(t['op'])
            vals = sorted(v for v, _ in alive)
            g = Guard('IN', src, {'lit:' + v for v in vals}, fn.path, bi, t['line'], reject, cov)
            g.kind = 'discr' if is_discr else 'match'
            out.append(g)
    return out


def _covers(fn, bi, ra):
    lp = loop_of(fn, bi)
    if lp is not None:
        w = cfgmod.must_pass_through(fn, {bi}, 'iteration', lp)
        return 'iteration' if w is None else 'some'
    w = cfgmod.must_pass_through(fn, {bi}, 'accept')
    return 'all' if w is None else 'some'


def _reject_kind(fn, dead_targets):
    """'err' if the rejecting arm returns, 'panic' if it diverges"""
    kinds = set()
    for tgt in dead_targets:
        seen = fn.reachable_from(tgt)
        if any(fn.blocks[b]['term']['k'] == 'return' for b in seen):
            kinds.add('err')
        else:
            kinds.add('panic')
    return 'err' if kinds == {'err'} else ('panic' if kinds == {'panic'} else 'mixed')


_EFF_CACHE = {}
EFF_MAX_DEPTH = 12
# adaptors whose result is the first rejection of the closure they apply to every element
VERDICT_ADAPTORS = {'try_for_each', 'try_fold', 'try_rfold'}


def effective_guards(db, path, binding=None, depth=0, stack=(), opaque=None, covers='all', sinks=False):
    """own guards (and, with sinks=True, hash sinks) of `path` plus those of its callees whose
    rejection propagates (the call's Result is checked and rejects, or the callee rejects by
    panic), with callee leaves substituted by the actual arguments. Results are in terms of
    `path`'s own parameters; memoised per (function, binding)."""
    generic = bool(db.fns[path].d.get('generics')) if path in db.fns else True
    key = (id(db), path, tuple(sorted(binding.items())) if (binding and generic) else None, sinks)
    if key in _EFF_CACHE:
        base = _EFF_CACHE[key]
    else:
        fn = db.fns[path]
        if not fn.has_mir or path in stack or depth > EFF_MAX_DEPTH:
            return []
        fl = Flow(db, fn, binding, 0, opaque)
        base = []
        extra = own_iter_sites(db, fn, fl) if sinks == 'iter' else (own_sinks(db, fn, fl) if sinks else [])
        for g in own_guards(db, fn, fl) + extra:
            base.append(g)
        ra = cfgmod.reach_accept(fn)
        complete = True
        for bi, t in fn.calls():
            targets = db.resolve(t['f'], binding)
            targets = [p for p in targets if db.fns[p].has_mir and not cfgmod.returns_bool(db.fns[p])]
            if not targets and t['f'].get('name') in VERDICT_ADAPTORS and not any(p in db.fns for p in db.resolve(t['f'], binding)):
                # iter.try_for_each(|x| ..) / try_fold(init, |acc, x| ..): the closure runs for every element until it
                # rejects, and its rejection is the adaptor's result -- lift the closure's guards (once per iteration)
                propagates = True
                if (cfgmod.ty_is_result(t['dest_ty']) or cfgmod.ty_is_option(t['dest_ty'])) and not t['dest']['p']:
                    uses, _ = cfgmod.result_uses(fn, t['dest']['l'], ra)
                    kinds = {u.kind for u in uses}
                    propagates = bool(uses) and not (kinds & {'swallowed', 'escaped'})
                cov = _covers(fn, bi, ra)
                args = t.get('args', [])
                argl = [fl.operand_leaves(a) for a in args]
                for ai, lv in enumerate(argl):
                    for lf in lv:
                        if not lf.startswith('closure:'):
                            continue
                        cp = lf[len('closure:'):]
                        if cp not in db.fns or not db.fns[cp].has_mir or cp in stack or cp == path:
                            continue
                        cfn = db.fns[cp]
                        elems = {fl.ext(x, '[*]') for x in argl[0] if not x.startswith('closure:')}
                        env = {x for x in lv if not x.startswith('closure:')}
                        if t['f'].get('name') in ('try_fold', 'try_rfold') and len(argl) == 3:
                            actual = [env, set(argl[1]) | {x for x in fl.leaves(t['dest']['l'])}, elems]
                        else:
                            actual = [env] + [elems for _ in range(cfn.arg_count - 1)]
                        # a literal array as the receiver: apply the closure to each element in turn (the elements of a
                        # table of (value, min, max) rows must not be merged)
                        recv_agg = fl._agg_of_operand(args[0]) or {}
                        rows = sorted({k.split('.')[0] for k in recv_agg if k.startswith('#')})
                        if rows and t['f'].get('name') == 'try_for_each' and cfn.arg_count == 2:
                            ea = fl._agg_of_operand(args[ai])
                            for rk in rows:
                                item_agg = {k[len(rk) + 1:]: v for k, v in recv_agg.items() if k.startswith(rk + '.')}
                                act = [env, set(recv_agg.get(rk, set()))]
                                for g in effective_guards(db, cp, binding, depth + 1, stack + (path,), opaque, 'all', sinks):
                                    if g.reject != 'panic' and not propagates:
                                        continue
                                    ag = [ea, item_agg]
                                    g2 = Guard(g.rel, fl._subst(g.lhs, act, bi, env_arg=True, argaggs=ag), fl._subst(g.rhs, act, bi, env_arg=True, argaggs=ag),
                                               g.fn, g.bb, g.line, g.reject, _combine(cov, g.covers))
                                    g2.kind = getattr(g, 'kind', None)
                                    g2.root = getattr(g, 'root', None)
                                    g2.via = [f'{path}@{t["line"]}'] + g.via
                                    g2.top_bb = bi
                                    base.append(g2)
                            continue
                        for g in effective_guards(db, cp, binding, depth + 1, stack + (path,), opaque, 'all', sinks):
                            if g.reject != 'panic' and not propagates:
                                continue
                            ea = fl._agg_of_operand(args[ai])
                            ag = [ea] + [None] * (len(actual) - 1) if ea else None
                            g2 = Guard(g.rel, fl._subst(g.lhs, actual, bi, env_arg=True, argaggs=ag), fl._subst(g.rhs, actual, bi, env_arg=True, argaggs=ag),
                                       g.fn, g.bb, g.line, g.reject, _combine(_combine(cov, 'iteration'), g.covers))
                            g2.kind = getattr(g, 'kind', None)
                            g2.root = getattr(g, 'root', None)
                            g2.via = [f'{path}@{t["line"]}'] + g.via
                            g2.top_bb = bi
                            base.append(g2)
                continue
            if not targets:
                continue
            propagates = True
            if (cfgmod.ty_is_result(t['dest_ty']) or cfgmod.ty_is_option(t['dest_ty'])) and not t['dest']['p']:
                uses, _ = cfgmod.result_uses(fn, t['dest']['l'], ra)
                kinds = {u.kind for u in uses}
                propagates = bool(uses) and not (kinds & {'swallowed', 'escaped'})
            cov = _covers(fn, bi, ra)
            argl = [fl.operand_leaves(a) for a in t.get('args', [])]
            aggs = fl.arg_aggs(t.get('args', []))
            for p in targets:
                if p in stack or p == path:
                    complete = False
                    continue
                for g in effective_guards(db, p, binding, depth + 1, stack + (path,), opaque, 'all', sinks):
                    if g.reject != 'panic' and not propagates:
                        continue
                    g2 = Guard(g.rel, fl._subst(g.lhs, argl, bi, argaggs=aggs), fl._subst(g.rhs, argl, bi, argaggs=aggs), g.fn, g.bb,
                               g.line, g.reject, _combine(cov, g.covers))
                    g2.kind = getattr(g, 'kind', None)
                    g2.root = getattr(g, 'root', None)
                    g2.via = [f'{path}@{t["line"]}'] + g.via
                    g2.top_bb = bi
                    base.append(g2)
        if complete or not stack:
            _EFF_CACHE[key] = base
    if covers == 'all':
        return base
    out = []
    for g in base:
        g2 = Guard(g.rel, g.lhs, g.rhs, g.fn, g.bb, g.line, g.reject, _combine(covers, g.covers))
        g2.kind = getattr(g, 'kind', None)
        g2.via = g.via
        out.append(g2)
    return out


def _combine(outer, inner):
    order = {'all': 0, 'iteration': 1, 'some': 2}
    return outer if order[outer] >= order[inner] else inner
