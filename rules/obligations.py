"""A7 transitive must-pass-through with verdict propagation (used by C01/C02/C04/C05/C07/C09).

must_call(F, targets): on every accepting path of F there is a call site whose callee is in
`targets` or (recursively) must-call `targets`, AND whose verdict propagates: if the callee
returns Result, the result must be checked so that Err makes F reject (R-RES); a callee that
rejects by panicking propagates by construction."""
import cfg
import dataflow
from facts import ty_is_result


class MustCall:
    def __init__(self, db, binding=None, site_filter=None):
        self.db = db
        self.site_filter = site_filter   # optional (fn, bb, term, callee) -> bool for direct target hits
        self.binding = binding or {}
        self.memo = {}
        self.res_memo = {}
        self.adaptor_sites = set()

    def hop_ok(self, fn, bi, t):
        """does a rejection of the call at block bi make fn reject?"""
        key = (fn.path, bi)
        if key in self.res_memo:
            return self.res_memo[key]
        ok = True
        why = ''
        if ty_is_result(t['dest_ty']):
            if t['dest']['p']:
                ok, why = False, 'result stored into a field'
            else:
                uses, _ = cfg.result_uses(fn, t['dest']['l'])
                kinds = {u.kind for u in uses}
                if not uses:
                    ok, why = False, 'result dropped'
                elif kinds & {'swallowed', 'escaped'}:
                    ok, why = False, 'result ' + ','.join(sorted(kinds & {'swallowed', 'escaped'}))
        self.res_memo[key] = (ok, why)
        return ok, why

    def sites(self, fn, targets, stack):
        """blocks of fn that (transitively) call `targets` with a propagating verdict; also returns
        the sites that reach the target but do not propagate"""
        good, bad = {}, {}
        for bi, t in fn.calls():
            res = self.db.resolve(t['f'], self.binding)
            hit = None
            for r in res:
                if r in targets and (self.site_filter is None or self.site_filter(fn, bi, t, r)):
                    hit = r
                    break
            if hit is None:
                for r in res:
                    if r not in stack and self.db.fns[r].has_mir and self.must_call(r, targets, stack)[0]:
                        hit = r
                        break
            if hit is None and not res and t['f'].get('name') in dataflow.VERDICT_ADAPTORS:
                # iter.try_for_each / try_fold(closure): the closure runs for every element and its rejection is the
                # adaptor's result; a closure that must-call the targets makes this site one (in every iteration)
                for cp in self._closure_args(fn, t):
                    if cp not in stack and self.must_call(cp, targets, stack)[0]:
                        hit = cp
                        self.adaptor_sites.add((fn.path, bi))
                        break
            if hit is None:
                continue
            ok, why = self.hop_ok(fn, bi, t)
            (good if ok else bad)[bi] = (hit, why, t['line'])
        # closures created here and invoked through iterator adaptors are not followed: a verdict
        # computed inside a closure must come out through the adaptor's result to count
        return good, bad

    def _closure_args(self, fn, t):
        import exprtree
        T = exprtree.Trees(self.db, fn)
        out = []
        for a in t.get('args', []):
            tr = T.operand(a)
            if isinstance(tr, tuple) and tr and tr[0] == 'closure' and tr[1] in self.db.fns:
                out.append(tr[1])
        return out

    def must_call(self, path, targets, stack=(), mode='accept'):
        key = (path, frozenset(targets), mode)
        if key in self.memo:
            return self.memo[key]
        fn = self.db.fns.get(path)
        if fn is None or not fn.has_mir or path in stack:
            return (False, None, {})
        self.memo[key] = (False, None, {})
        good, bad = self.sites(fn, targets, stack + (path,))
        if mode == 'accept':
            w = cfg.must_pass_through(fn, set(good), 'accept')
            ok = w is None
        else:
            ok, w = self._iteration(fn, good)
        r = (ok, w, {'good': good, 'bad': bad})
        self.memo[key] = r
        return r

    def _iteration(self, fn, good):
        """every iteration of a loop that contains a good site passes a good site, and at least
        one such loop exists"""
        loops = {}
        adaptors = 0
        for bi in good:
            lp = dataflow.loop_of(fn, bi)
            if lp is not None:
                loops.setdefault(lp, set()).add(bi)
            elif (fn.path, bi) in self.adaptor_sites:
                adaptors += 1       # the adaptor is the loop: its closure runs for every element
        if not loops:
            if adaptors:
                w = cfg.must_pass_through(fn, {bi for bi in good if (fn.path, bi) in self.adaptor_sites}, 'accept')
                return w is None, w
            return False, None
        for lp, blocks in loops.items():
            w = cfg.must_pass_through(fn, blocks, 'iteration', lp)
            if w is not None:
                return False, w
        return True, None


def check_chain(db, rep, rule, name, chain, binding=None, modes=None, config=None, site_filter=None):
    """chain = [A0, A1, ..., An] of function paths (the last may be a set of alternatives)."""
    mc = MustCall(db, binding, site_filter)
    for i in range(len(chain) - 1):
        src = chain[i]
        tgt = chain[i + 1]
        targets = set(tgt) if isinstance(tgt, (set, frozenset, list, tuple)) else {tgt}
        mode = (modes or {}).get(i, 'accept')
        if src not in db.fns:
            rep.fail_closed(rule, f'anchor {src} not found')
            return False
        ok, w, info = mc.must_call(src, targets, (), mode)
        fn = db.fns[src]
        tn = '|'.join(sorted(x.split('::')[-1] for x in targets))
        key = f'{name}:{src.split("::")[-1]}->{tn}'
        if ok:
            rep.ob(rule, key, True, f'every accepting {"iteration" if mode == "iteration" else "path"} of '
                   f'{src} passes a checked call reaching {tn} ({len(info["good"])} site(s))', fn.loc(), config)
            continue
        if info.get('bad') and not info.get('good'):
            b = sorted(info['bad'].items())[0]
            detail = (f'{src} reaches {tn} only through a call whose verdict does not propagate: '
                      f'{b[1][1]} (callee {b[1][0]})')
            loc = fn.loc(b[1][2])
        elif info.get('bad'):
            b = sorted(info['bad'].items())[0]
            detail = (f'an accepting path of {src} avoids every checked call reaching {tn}; a call whose '
                      f'verdict does not propagate exists: {b[1][1]} (callee {b[1][0]})')
            loc = fn.loc(b[1][2])
        else:
            lines = cfg.path_lines(fn, w) if w else []
            detail = f'an accepting path of {src} reaches no call to {tn}; path lines {lines[:12]}'
            loc = fn.loc()
        rep.ob(rule, key, False, detail, loc, config)
        return False
    return True
