#!/usr/bin/env python3
"""Entry point: ./check <Cxx> [--tier quick|thorough] [--replay <report.json>]"""
import argparse
import importlib
import json
import os
import sys
import traceback

sys.path.insert(0, os.path.dirname(os.path.abspath(__file__)))
import extract
import facts
from report import Report

PROPS = ['C01', 'C02', 'C03', 'C04', 'C05', 'C06', 'C07', 'C08', 'C09', 'C10', 'C11', 'C12',
         'C13', 'C14', 'C16', 'C17', 'C18', 'C19']


class Ctx:
    def __init__(self, tier):
        self.tier = tier
        self.thash = extract.tree_hash()
        self._dbs = {}
        self.main_config = extract.MAIN

    def db(self, config):
        if config not in self._dbs:
            d = extract.extract(config, self.thash, log=lambda m: print('  [' + m + ']'))
            self._dbs[config] = facts.DB(d, config)
        return self._dbs[config]

    @property
    def main(self):
        return self.db(self.main_config)

    def ws_configs(self):
        return extract.THOROUGH_WS if self.tier == 'thorough' else extract.QUICK_WS

    def stone_configs(self):
        """one config per Stone version"""
        return ['k160s5', 'b248s6']

    def cli_configs(self):
        if self.tier == 'thorough':
            return ['cli_' + l for l in extract.LAYOUTS]
        return ['cli_recursive', 'cli_dynamic']


def run_property(prop, tier, replay=None):
    seed = int(os.environ.get('VERIF_SEED', '0') or 0)
    rep = Report(prop, tier, seed)
    ctx = Ctx(tier)
    mod = importlib.import_module('props.' + prop.lower())
    try:
        mod.run(ctx, rep)
        if tier == 'thorough' and getattr(mod, 'THOROUGH_MAIN_CONFIGS', None):
            # the same rules again with another build configuration as the main program database
            # (other hash / Stone version / no_std error enums); equal instance keys count once
            for cname in mod.THOROUGH_MAIN_CONFIGS:
                ctx.main_config = cname
                rep.note('extra_main_config_' + cname, 'analysed')
                mod.run(ctx, rep)
            ctx.main_config = extract.MAIN
    except facts.AnalysisIncomplete as e:
        rep.fail_closed(e.rule, e.reason)
    except extract.ExtractError as e:
        rep.fail_closed('extract', str(e))
    except Exception as e:  # an engine bug must not pass silently
        traceback.print_exc()
        rep.fail_closed('engine', f'{type(e).__name__}: {e}')
    if replay:
        with open(replay) as fh:
            want = json.load(fh)
        key = want.get('key')
        hits = [o for o in rep.obligations if o['key'] == key and not o['ok']]
        if want.get('incomplete'):
            hits = [1] if rep.incomplete else []
        if hits:
            print(f'replay: instance still violates: {key or want.get("incomplete")}')
            print(f'VIOLATION property={prop} replay={replay}')
            return 1
        print(f'replay: instance no longer violates: {key}')
        return 0
    return rep.finish(mod.EXPLANATION, mod.NOT_DECIDED, mod.TRUSTED, getattr(mod, 'ASSUMPTIONS', ()))


def main():
    ap = argparse.ArgumentParser()
    ap.add_argument('prop')
    ap.add_argument('--tier', default=os.environ.get('VERIF_TIER', 'quick'),
                    choices=['quick', 'thorough'])
    ap.add_argument('--replay')
    a = ap.parse_args()
    if a.prop == 'warm':
        th = extract.tree_hash()
        for c in extract.QUICK_WS + ['parser', 'cli_recursive', 'cli_dynamic']:
            try:
                extract.extract(c, th, log=print)
            except extract.ExtractError as e:
                print('warm: ', e)
        extract.prune_cache(th)
        return 0
    if a.prop == 'all':
        rc = 0
        for p in PROPS:
            rc |= run_property(p, a.tier)
        return rc
    return run_property(a.prop.upper(), a.tier, a.replay)


if __name__ == '__main__':
    sys.exit(main())
