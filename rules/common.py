"""Shared anchors and small MIR helpers used by several property rules."""
from facts import AnalysisIncomplete, op_place

LAYOUT_TRAIT = 'swiftness_air::layout::LayoutTrait'
VERIFY = 'swiftness_stark::stark::<impl swiftness_stark::types::StarkProof>::verify'
STARK_COMMIT = 'swiftness_stark::commit::stark_commit'
STARK_VERIFY = 'swiftness_stark::verify::stark_verify'
VERIFY_OODS = 'swiftness_stark::oods::verify_oods'
EVAL_OODS_POINTS = 'swiftness_stark::oods::eval_oods_boundary_poly_at_points'
CONFIG_VALIDATE = 'swiftness_stark::config::StarkConfig::validate'
SECURITY_BITS = 'swiftness_stark::config::StarkConfig::security_bits'
GENERATE_QUERIES = 'swiftness_stark::queries::generate_queries'
QUERIES_TO_POINTS = 'swiftness_stark::queries::queries_to_points'
FRI_VERIFY = 'swiftness_fri::fri::fri_verify'
FRI_VERIFY_LAYERS = 'swiftness_fri::fri::fri_verify_layers'
FRI_COMMIT = 'swiftness_fri::fri::fri_commit'
FRI_COMMIT_ROUNDS = 'swiftness_fri::fri::fri_commit_rounds'
FRI_CONFIG_VALIDATE = 'swiftness_fri::config::Config::validate'
COMPUTE_NEXT_LAYER = 'swiftness_fri::layer::compute_next_layer'
COMPUTE_COSET = 'swiftness_fri::layer::compute_coset_elements'
FRI_FORMULA = 'swiftness_fri::formula::fri_formula'
VERIFY_LAST_LAYER = 'swiftness_fri::last_layer::verify_last_layer'
GATHER_FIRST = 'swiftness_fri::first_layer::gather_first_layer_queries'
GET_FRI_GROUP = 'swiftness_fri::group::get_fri_group'
TABLE_DECOMMIT = 'swiftness_commitment::table::decommit::table_decommit'
TABLE_COMMIT = 'swiftness_commitment::table::commit::table_commit'
GEN_VECTOR_QUERIES = 'swiftness_commitment::table::decommit::generate_vector_queries'
VECTOR_DECOMMIT = 'swiftness_commitment::vector::decommit::vector_commitment_decommit'
VECTOR_COMMIT = 'swiftness_commitment::vector::commit::vector_commit'
COMPUTE_ROOT = 'swiftness_commitment::vector::decommit::compute_root_from_queries'
HASH_FU = 'swiftness_commitment::vector::decommit::hash_friendly_unfriendly'
VECTOR_CONFIG_VALIDATE = 'swiftness_commitment::vector::config::Config::validate'
TRACE_CONFIG_VALIDATE = 'swiftness_air::trace::config::Config::validate'
POW_CONFIG_VALIDATE = 'swiftness_pow::config::Config::validate'
POW_COMMIT = 'swiftness_pow::pow::UnsentCommitment::commit'
VERIFY_POW = 'swiftness_pow::pow::verify_pow'
GET_HASH = 'swiftness_air::public_memory::PublicInput::get_hash'
DOMAINS_NEW = 'swiftness_air::domains::StarkDomains::new'
TRANSCRIPT = 'swiftness_transcript::transcript::Transcript'
T_SQUEEZE = TRANSCRIPT + '::random_felt_to_prover'
T_SQUEEZE_N = TRANSCRIPT + '::random_felts_to_prover'
T_ABSORB1 = TRANSCRIPT + '::read_felt_from_prover'
T_ABSORBV = TRANSCRIPT + '::read_felt_vector_from_prover'
T_ABSORB64 = TRANSCRIPT + '::read_uint64_from_prover'
T_DIGEST = TRANSCRIPT + '::digest'
T_NEW = TRANSCRIPT + '::new'

TRAIT_METHODS = ['eval_composition_polynomial', 'eval_oods_polynomial', 'validate_public_input',
                 'traces_commit', 'traces_decommit', 'verify_public_input']


def layout_method(db, layout_self, name, rule='anchor'):
    it = db.impl_item(LAYOUT_TRAIT, layout_self, name)
    if it is None or it['path'] not in db.fns:
        raise AnalysisIncomplete(rule, f'{layout_self} has no LayoutTrait::{name}')
    return db.fns[it['path']]


def defs_of(fn):
    """local -> list of (bb, kind, payload) definitions (whole-local assignments only)"""
    d = {}
    for bi, b in enumerate(fn.blocks):
        if b.get('cleanup'):
            continue
        for s in b['stmts']:
            if s['k'] == 'assign' and not s['place']['p']:
                d.setdefault(s['place']['l'], []).append((bi, 'assign', s['rv']))
        t = b['term']
        if t['k'] == 'call' and t.get('dest') and not t['dest']['p']:
            d.setdefault(t['dest']['l'], []).append((bi, 'call', t))
    return d


def trace_to_param(fn, local, defs=None, depth=0):
    """follow copy / move / reborrow chains from `local` back to a parameter local; returns the
    parameter local index (1-based) or None"""
    if defs is None:
        defs = defs_of(fn)
    seen = set()
    while True:
        if 1 <= local <= fn.arg_count:
            return local
        if local in seen:
            return None
        seen.add(local)
        ds = defs.get(local, [])
        if len(ds) != 1:
            return None
        _, kind, rv = ds[0]
        if kind != 'assign':
            # transparent std calls: deref / as_ref / borrow
            t = rv
            p = t['f'].get('path', '')
            if p in ('core::ops::Deref::deref', 'core::convert::AsRef::as_ref',
                     'core::borrow::Borrow::borrow') and t['args']:
                pl = op_place(t['args'][0])
                if pl is None:
                    return None
                local = pl['l']
                continue
            return None
        if rv['k'] == 'use':
            pl = op_place(rv['a'])
        elif rv['k'] == 'ref':
            pl = rv['place']
        else:
            return None
        if pl is None or any(e != '*' for e in pl['p']):
            return None
        local = pl['l']


def inner_evaluator(db, layout_self, method, coeff_param_local, rule):
    """The generated evaluator called by `method` of the layout: found as the local callee that
    receives the trait method's coefficient-slice parameter. Returns (fn, {trait param local ->
    inner param index})."""
    m = layout_method(db, layout_self, method, rule)
    defs = defs_of(m)
    for bi, t in m.calls():
        res = db.resolve(t['f'])
        if not res:
            continue
        mapping = {}
        for j, a in enumerate(t['args']):
            pl = op_place(a)
            if pl is None or pl['p']:
                continue
            src = trace_to_param(m, pl['l'], defs)
            if src is not None:
                mapping[src] = j
        if coeff_param_local in mapping:
            return db.fns[res[0]], mapping, m
    raise AnalysisIncomplete(rule, f'no callee of {m.path} receives its coefficient slice')


def origin_calls(fn, operand, defs=None, _seen=None):
    """the call sites (callee path, bb) whose result reaches `operand` through plain copies/moves"""
    if defs is None:
        defs = defs_of(fn)
    pl = op_place(operand)
    if pl is None or pl['p']:
        return set()
    out = set()
    seen = _seen if _seen is not None else set()
    st = [pl['l']]
    while st:
        l = st.pop()
        if l in seen:
            continue
        seen.add(l)
        for bi, kind, x in defs.get(l, []):
            if kind == 'call':
                out.add((x['f'].get('resolved') or x['f'].get('path') or 'indirect', bi))
            elif x['k'] == 'use':
                p2 = op_place(x['a'])
                if p2 is not None and not p2['p']:
                    st.append(p2['l'])
            elif x['k'] == 'ref' and all(e == '*' for e in x['place']['p']):
                st.append(x['place']['l'])
    return out


def table_length_guard(db):
    """table_decommit rejects unless the number of cells is columns * queries. Accepted forms:
    n_columns * len(queries) == len(values), or the equivalent pair len(values) % n_columns == 0 and
    len(values) / n_columns == len(queries)."""
    import dataflow
    gs = [g for g in dataflow.effective_guards(db, TABLE_DECOMMIT)
          if g.rel == 'EQ' and g.covers == 'all' and g.fn == TABLE_DECOMMIT and g.reject in ('err', 'mixed')]

    def side(x, need, ops):
        return all(any(l == n or l.startswith(n) for l in x) for n in need) and all(('op:' + o) in x for o in ops)
    prod = div = rem = False
    for g in gs:
        for x, y in ((g.lhs, g.rhs), (g.rhs, g.lhs)):
            if 'len(a3.values)' in x and side(y, ['len(a2)', 'a1.config.n_columns'], ['mul']) and 'op:div' not in x | y and 'op:rem' not in x | y:
                prod = True
            if side(x, ['len(a3.values)', 'a1.config.n_columns'], ['div']) and 'len(a2)' in y:
                div = True
            if side(x, ['len(a3.values)', 'a1.config.n_columns'], ['rem']) and any(l in ('lit:0',) for l in y):
                rem = True
    return prod or (div and rem)
