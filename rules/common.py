"""Shared anchors and small MIR helpers used by several property rules."""
import re
from facts import AnalysisIncomplete, op_place

LAYOUT_TRAIT = 'swiftness_air::layout::LayoutTrait'
VERIFY = 'swiftness_stark::stark::<impl swiftness_stark::types::StarkProof>::verify'
STARK_COMMIT = 'swiftness_stark::commit::stark_commit'
STARK_VERIFY = 'swiftness_stark::verify::stark_verify'
VERIFY_OODS = 'swiftness_stark::oods::verify_oods'
EVAL_OODS_POINTS = 'swiftness_stark::oods::eval_oods_boundary_poly_at_points'
CONFIG_VALIDATE = 'swiftness_stark::config::StarkConfig::validate'
SECURITY_BITS = 'swiftness_stark::config::StarkConfig::security_bits'
GENERATE_QUERIES = 'swiftness_stark::queries::generate_queries'
QUERIES_TO_POINTS = 'swiftness_stark::queries::queries_to_points'
FRI_VERIFY = 'swiftness_fri::fri::fri_verify'
FRI_VERIFY_LAYERS = 'swiftness_fri::fri::fri_verify_layers'
FRI_COMMIT = 'swiftness_fri::fri::fri_commit'
FRI_COMMIT_ROUNDS = 'swiftness_fri::fri::fri_commit_rounds'
FRI_CONFIG_VALIDATE = 'swiftness_fri::config::Config::validate'
COMPUTE_NEXT_LAYER = 'swiftness_fri::layer::compute_next_layer'
COMPUTE_COSET = 'swiftness_fri::layer::compute_coset_elements'
FRI_FORMULA = 'swiftness_fri::formula::fri_formula'
VERIFY_LAST_LAYER = 'swiftness_fri::last_layer::verify_last_layer'
GATHER_FIRST = 'swiftness_fri::first_layer::gather_first_layer_queries'
GET_FRI_GROUP = 'swiftness_fri::group::get_fri_group'
TABLE_DECOMMIT = 'swiftness_commitment::table::decommit::table_decommit'
TABLE_COMMIT = 'swiftness_commitment::table::commit::table_commit'
GEN_VECTOR_QUERIES = 'swiftness_commitment::table::decommit::generate_vector_queries'
VECTOR_DECOMMIT = 'swiftness_commitment::vector::decommit::vector_commitment_decommit'
VECTOR_COMMIT = 'swiftness_commitment::vector::commit::vector_commit'
COMPUTE_ROOT = 'swiftness_commitment::vector::decommit::compute_root_from_queries'
HASH_FU = 'swiftness_commitment::vector::decommit::hash_friendly_unfriendly'
VECTOR_CONFIG_VALIDATE = 'swiftness_commitment::vector::config::Config::validate'
TRACE_CONFIG_VALIDATE = 'swiftness_air::trace::config::Config::validate'
POW_CONFIG_VALIDATE = 'swiftness_pow::config::Config::validate'
POW_COMMIT = 'swiftness_pow::pow::UnsentCommitment::commit'
VERIFY_POW = 'swiftness_pow::pow::verify_pow'
GET_HASH = 'swiftness_air::public_memory::PublicInput::get_hash'
DOMAINS_NEW = 'swiftness_air::domains::StarkDomains::new'
TRANSCRIPT = 'swiftness_transcript::transcript::Transcript'
T_SQUEEZE = TRANSCRIPT + '::random_felt_to_prover'
T_SQUEEZE_N = TRANSCRIPT + '::random_felts_to_prover'
T_ABSORB1 = TRANSCRIPT + '::read_felt_from_prover'
T_ABSORBV = TRANSCRIPT + '::read_felt_vector_from_prover'
T_ABSORB64 = TRANSCRIPT + '::read_uint64_from_prover'
T_DIGEST = TRANSCRIPT + '::digest'
T_NEW = TRANSCRIPT + '::new'

TRAIT_METHODS = ['eval_composition_polynomial', 'eval_oods_polynomial', 'validate_public_input',
                 'traces_commit', 'traces_decommit', 'verify_public_input']


def layout_method(db, layout_self, name, rule='anchor'):
    it = db.impl_item(LAYOUT_TRAIT, layout_self, name)
    if it is None or it['path'] not in db.fns:
        raise AnalysisIncomplete(rule, f'{layout_self} has no LayoutTrait::{name}')
    return db.fns[it['path']]


def defs_of(fn):
    """local -> list of (bb, kind, payload) definitions (whole-local assignments only)"""
    d = {}
    for bi, b in enumerate(fn.blocks):
        if b.get('cleanup'):
            continue
        for s in b['stmts']:
            if s['k'] == 'assign' and not s['place']['p']:
                d.setdefault(s['place']['l'], []).append((bi, 'assign', s['rv']))
        t = b['term']
        if t['k'] == 'call' and t.get('dest') and not t['dest']['p']:
            d.setdefault(t['dest']['l'], []).append((bi, 'call', t))
    return d


def trace_to_param(fn, local, defs=None, depth=0):
    """follow copy / move / reborrow chains from `local` back to a parameter local; returns the
    parameter local index (1-based) or None"""
    if defs is None:
        defs = defs_of(fn)
    seen = set()
    while True:
        if 1 <= local <= fn.arg_count:
            return local
        if local in seen:
            return None
        seen.add(local)
        ds = defs.get(local, [])
        if len(ds) != 1:
            return None
        _, kind, rv = ds[0]
        if kind != 'assign':
            # transparent std calls: deref / as_ref / borrow
            t = rv
            p = t['f'].get('path', '')
            if p in ('core::ops::Deref::deref', 'core::convert::AsRef::as_ref',
                     'core::borrow::Borrow::borrow') and t['args']:
                pl = op_place(t['args'][0])
                if pl is None:
                    return None
                local = pl['l']
                continue
            return None
        if rv['k'] == 'use':
            pl = op_place(rv['a'])
        elif rv['k'] == 'ref':
            pl = rv['place']
        else:
            return None
        if pl is None or any(e != '*' for e in pl['p']):
            return None
        local = pl['l']


def inner_evaluator(db, layout_self, method, coeff_param_local, rule):
    """The generated evaluator called by `method` of the layout: found as the local callee that
    receives the trait method's coefficient-slice parameter. Returns (fn, {trait param local ->
    inner param index})."""
    m = layout_method(db, layout_self, method, rule)
    defs = defs_of(m)
    for bi, t in m.calls():
        res = db.resolve(t['f'])
        if not res:
            continue
        mapping = {}
        for j, a in enumerate(t['args']):
            pl = op_place(a)
            if pl is None or pl['p']:
                continue
            src = trace_to_param(m, pl['l'], defs)
            if src is not None:
                mapping[src] = j
        if coeff_param_local in mapping:
            return db.fns[res[0]], mapping, m
    raise AnalysisIncomplete(rule, f'no callee of {m.path} receives its coefficient slice')


def origin_calls(fn, operand, defs=None, _seen=None):
    """the call sites (callee path, bb) whose result reaches `operand` through plain copies/moves"""
    if defs is None:
        defs = defs_of(fn)
    pl = op_place(operand)
    if pl is None or pl['p']:
        return set()
    out = set()
    seen = _seen if _seen is not None else set()
    st = [pl['l']]
    while st:
        l = st.pop()
        if l in seen:
            continue
        seen.add(l)
        for bi, kind, x in defs.get(l, []):
            if kind == 'call':
                out.add((x['f'].get('resolved') or x['f'].get('path') or 'indirect', bi))
            elif x['k'] == 'use':
                p2 = op_place(x['a'])
                if p2 is not None and not p2['p']:
                    st.append(p2['l'])
            elif x['k'] == 'ref' and all(e == '*' for e in x['place']['p']):
                st.append(x['place']['l'])
    return out


def table_length_guard(db):
    """table_decommit rejects unless the number of cells is columns * queries. Accepted forms:
    n_columns * len(queries) == len(values), or the equivalent pair len(values) % n_columns == 0 and
    len(values) / n_columns == len(queries)."""
    import dataflow
    gs = [g for g in dataflow.effective_guards(db, TABLE_DECOMMIT)
          if g.rel == 'EQ' and g.covers == 'all' and g.fn == TABLE_DECOMMIT and g.reject in ('err', 'mixed')]

    def side(x, need, ops):
        return all(any(l == n or l.startswith(n) for l in x) for n in need) and all(('op:' + o) in x for o in ops)
    prod = div = rem = False
    for g in gs:
        for x, y in ((g.lhs, g.rhs), (g.rhs, g.lhs)):
            if 'len(a3.values)' in x and side(y, ['len(a2)', 'a1.config.n_columns'], ['mul']) and 'op:div' not in x | y and 'op:rem' not in x | y:
                prod = True
            if side(x, ['len(a3.values)', 'a1.config.n_columns'], ['div']) and 'len(a2)' in y:
                div = True
            if side(x, ['len(a3.values)', 'a1.config.n_columns'], ['rem']) and any(l in ('lit:0',) for l in y):
                rem = True
    return prod or (div and rem)


def bodies(db, fn, helpers=0):
    """fn followed by the closures created in it, transitively: the source-level body of one function.
    With helpers=n, functions of the same crate that it calls (directly resolved calls, n levels) are included as
    well: code extracted into a private helper is still that function's code."""
    out, st = [], [(fn, 0)]
    crate = fn.path.lstrip('<').split('::')[0]
    while st:
        f, d = st.pop(0)
        if f in out:
            continue
        out.append(f)
        if f.has_mir and not f.compact:
            for c in db.closure_creations(f):
                if c in db.fns:
                    st.append((db.fns[c], d))
            if d < helpers:
                for _, t in f.calls():
                    c = t['f'].get('resolved') if t['f'].get('is_resolved') else None
                    if c in db.fns and c.lstrip('<').split('::')[0] == crate and c != fn.path:
                        st.append((db.fns[c], d + 1))
    return out


def upvars(db, parent, closure_path):
    """def-use trees (in the parent's terms) of the values a closure created in `parent` captures, by capture index"""
    import exprtree
    T = exprtree.Trees(db, parent)
    for b in parent.blocks:
        if b.get('cleanup'):
            continue
        for s in b['stmts']:
            if s['k'] == 'assign' and s['rv'].get('k') == 'agg' and s['rv'].get('agg') == 'closure' and s['rv'].get('closure') == closure_path:
                return [T.operand(o) for o in s['rv']['ops']]
    return []


def strip_ref(t):
    while isinstance(t, tuple) and t[0] in ('ref', 'deref', 'copy') and len(t) == 2:
        t = t[1]
    return t


def friendly_selection(db):
    """which Merkle layers use the verifier-friendly hash: (key, ok, detail, loc) per decision site.
    table layer : is_bottom_layer_verifier_friendly = n_verifier_friendly_commitment_layers >= height + 1
    vector layer: hash_friendly_unfriendly(.., n_verifier_friendly_layers >= node depth), selected by that argument"""
    import exprtree
    from facts import op_place
    out = []
    td = db.fn(TABLE_DECOMMIT, 'friendly-selection')
    T = exprtree.Trees(db, td)
    n = 0
    for bi, t in td.calls():
        if t['f'].get('resolved') == GEN_VECTOR_QUERIES and len(t['args']) >= 4:
            ft = T.operand(t['args'][3])
            flag = exprtree.show(ft)
            okf = isinstance(ft, tuple) and ft[0] == 'ge' and len(ft) == 3 and \
                exprtree.show(ft[1]).endswith('vector_commitment.config.n_verifier_friendly_commitment_layers') and \
                isinstance(ft[2], tuple) and ft[2][0] == 'add' and ('val', 1) in ft[2][1:] and \
                any(exprtree.show(x).endswith('vector_commitment.config.height') for x in ft[2][1:])
            out.append(('table-flag', okf, f'is_bottom_layer_verifier_friendly = {flag[:160]} (expected friendly layers >= height + 1)', td.loc(t['line'])))
            n += 1
    if not n:
        out.append(('table-flag', False, 'table_decommit does not call generate_vector_queries', td.loc()))
    hf = db.fn(HASH_FU, 'friendly-selection')
    Th = exprtree.Trees(db, hf)
    sw = [b['term'] for b in hf.blocks if b['term']['k'] == 'switch' and not b.get('cleanup')]
    okb = any(op_place(t['op']) and op_place(t['op'])['l'] == 3 or exprtree.show(Th.operand(t['op'])) == 'a3' for t in sw)
    out.append(('vector-switch', okb, 'hash_friendly_unfriendly selects the arm by its is_verifier_friendly argument', hf.loc()))
    cr = db.fn(COMPUTE_ROOT, 'friendly-selection')
    Tr = exprtree.Trees(db, cr)
    k = 0
    for bi, t in cr.calls():
        if t['f'].get('resolved') == HASH_FU:
            s_ = exprtree.show(Tr.operand(t['args'][2]))
            out.append((f'vector-flag|{k}', s_.startswith('ge(a3,') and s_.endswith('.depth)'),
                        f'is_verifier_friendly = {s_} (expected n_verifier_friendly_layers >= current.depth)', cr.loc(t['line'])))
            k += 1
    # the threshold itself: the commitment's configured count at the top call, unchanged in the recursion
    vd = db.fn(VECTOR_DECOMMIT, 'friendly-selection')
    Tv = exprtree.Trees(db, vd)
    tops = [exprtree.show(Tv.operand(t['args'][2])) for _, t in vd.calls() if t['f'].get('resolved') == COMPUTE_ROOT and len(t['args']) > 2]
    out.append(('vector-threshold', tops == ['a1.config.n_verifier_friendly_commitment_layers'],
                f'compute_root_from_queries is started with n_verifier_friendly_layers = {tops}', vd.loc()))
    rec = [exprtree.show(Tr.operand(t['args'][2])) for _, t in cr.calls() if t['f'].get('resolved') == COMPUTE_ROOT and len(t['args']) > 2]
    rewritten = [d for d in defs_of(cr).get(3, [])]
    out.append(('vector-threshold-recursion', all(x == 'a3' for x in rec) and not rewritten,
                f'the threshold stays the same for every node: recursive calls pass {rec}, assignments to the parameter: {len(rewritten)}', cr.loc()))
    if k < 1:
        out.append(('vector-flag-site', False, 'no hash_friendly_unfriendly call site in compute_root_from_queries', cr.loc()))
    return out


def elementwise(db, fn):
    """For a function that maps a slice to a vector element by element -- `for x in xs { out.push(f(x)) }` or
    `xs.iter().map(|x| f(x)).collect()` -- the def-use tree of f(x) in the function's own terms, with the input
    element written ('ELEM', <tree of xs>). Returns (tree, form) or (None, reason)."""
    import exprtree

    def rewrite(t, f):
        if isinstance(t, tuple):
            t = tuple(rewrite(x, f) if k else x for k, x in enumerate(t))
            return f(t)
        if isinstance(t, dict):
            return {k: rewrite(v, f) for k, v in t.items()}
        return t

    T = exprtree.Trees(db, fn)
    pushes = [t for _, t in fn.calls() if t['f'].get('name') == 'push' and len(t.get('args', [])) == 2]
    if len(pushes) == 1:
        defs = defs_of(fn)

        def loop_elem(t):
            if t[0] == 'next' and len(t) == 2:
                src = t[1]
                while isinstance(src, tuple) and src[0] in ('iter', 'into_iter') and len(src) == 2:
                    src = src[1]
                return ('ELEM', src)
            # `while let [x, rest @ ..] = remaining { .. remaining = rest }`: the head of a slice that starts as xs and
            # is replaced by its own tail
            if t[0] == 'proj' and isinstance(t[1], tuple) and t[1][0] == 'phi' and t[2] == ('cidx', 0, False):
                ds = defs.get(t[1][1], [])
                trees = [T.rvalue(d[2], 1) for d in ds if d[1] == 'assign']
                tails = [x for x in trees if isinstance(x, tuple) and x[0] == 'proj' and x[1] == t[1] and
                         isinstance(x[2], tuple) and x[2][0] == 'sub' and tuple(x[2][1])[:1] == (1,)]
                srcs = [x for x in trees if x not in tails]
                if len(ds) == len(trees) == 2 and len(tails) == 1 and len(srcs) == 1:
                    return ('ELEM', srcs[0])
            return t
        return rewrite(T.operand(pushes[0]['args'][1]), loop_elem), 'loop'
    rt = T.local(0)
    if isinstance(rt, tuple) and rt[0] == 'collect' and len(rt) == 2 and isinstance(rt[1], tuple) and rt[1][0] == 'map' and len(rt[1]) == 3:
        src, cl = rt[1][1], rt[1][2]
        while isinstance(src, tuple) and src[0] in ('iter', 'into_iter') and len(src) == 2:
            src = src[1]
        if isinstance(cl, tuple) and cl[0] == 'closure' and cl[1] in db.fns:
            ups = list(cl[2])
            body = exprtree.Trees(db, db.fns[cl[1]]).local(0)

            def clos(t):
                if t == ('arg', 2):
                    return ('ELEM', src)
                if t[0] == 'proj' and t[1] == ('arg', 1) and isinstance(t[2], str) and t[2].isdigit() and int(t[2]) < len(ups):
                    return ups[int(t[2])]
                return t
            return rewrite(body, clos), 'map'
    return None, f'neither one push in a loop nor collect(map(..)): returns {exprtree.show(rt)[:100]}'


def powers_roles(db):
    """powers_array's parameters by role, whatever their order: {'fn', 'n': k (the integer parameter), 'alpha': k (the Felt
    parameter the accumulator is multiplied by), 'initial': k or None (another Felt parameter, if any)}; None if the
    function is missing or the roles are ambiguous"""
    import dataflow
    cands = [p for p in db.fns if p.endswith('::commit::powers_array')]
    if len(cands) != 1:
        return None
    fn = db.fns[cands[0]]
    ints = [k for k in range(1, fn.arg_count + 1) if fn.local_ty(k) in ('u32', 'u64', 'usize', 'u128', 'u16')]
    felts = [k for k in range(1, fn.arg_count + 1) if fn.local_ty(k).endswith('::Felt')]
    if len(ints) != 1 or not 1 <= len(felts) <= 2:
        return None
    fl = dataflow.Flow(db, fn)
    mult = set()
    for _, t in fn.calls():
        if t['f'].get('name') in ('mul_assign', 'mul') and len(t.get('args', [])) == 2:
            for a in t['args']:
                lv = set(fl.operand_leaves(a))
                for k in felts:
                    if lv == {f'a{k}'}:
                        mult.add(k)
    if len(mult) != 1:
        return None
    alpha = next(iter(mult))
    rest = [k for k in felts if k != alpha]
    return {'fn': fn, 'n': ints[0], 'alpha': alpha, 'initial': rest[0] if rest else None}


def constants_check(db, rep, rule, cfg, layouts=True, other=()):
    """numeric constants against tables/constants.json (values confirmed on the pinned tree: Cairo layout parameters,
    AIR sizes, protocol bounds). A constant that still exists must have the tabled value; a constant that was removed or
    renamed is not reported (that is a refactor; its uses are covered by the rules that look at them). FELT_<n> constants
    must equal n whatever the table says."""
    import json
    import os
    import re
    import literals
    tab = json.load(open(os.path.join(os.path.dirname(os.path.dirname(os.path.abspath(__file__))), 'tables', 'constants.json')))
    n = 0
    if layouts:
        lay = db.layouts()
        for lname, lself in sorted(lay.items()):
            want = tab['layouts'].get(lname, {})
            impl_vals = {}
            for i in db.impls:
                if i.get('self') == lself and i.get('trait', '').endswith('LayoutTrait'):
                    for it in i['items']:
                        if 'val' in it:
                            try:
                                impl_vals['impl::' + it['name']] = int(it['val'])
                            except ValueError:
                                pass
            bad = []
            for name, v in sorted(want.items()):
                cur = impl_vals.get(name) if name.startswith('impl::') else literals.const_value(db, f'swiftness_air::layout::{lname}::{name}')
                if cur is None:
                    continue
                n += 1
                if cur != v:
                    bad.append(f'{name} = {cur} (confirmed value {v})')
            rep.ob(rule, f'layout/{lname}', not bad, f'{lname}: {len(want)} layout constants' + (f'; changed: {bad[:4]}' if bad else ' agree with the table'),
                   f'crates/air/src/layout/{lname}/mod.rs', cfg)
    for prefix in other:
        bad = []
        k = 0
        for path, v in sorted(tab['other'].items()):
            if not path.startswith(prefix):
                continue
            cur = literals.const_value(db, path)
            if cur is None:
                continue
            k += 1
            n += 1
            m = re.search(r'::FELT_(\d+)$', path)
            if cur != v or (m and cur != int(m.group(1))):
                bad.append(f'{path.split("::")[-1]} = {cur} (confirmed value {v})')
        rep.ob(rule, f'consts/{prefix}', not bad, f'{k} constants under {prefix}' + (f'; changed: {bad[:4]}' if bad else ' agree with the table'), '', cfg)
    return n


def struct_signatures(db, fn, binding=None):
    """{'<Adt>.<field>': signature} for every struct literal built in fn: the source fields (canonical paths of the
    parameters), operations, constants by value and constant indices each field is computed from"""
    import re
    import dataflow
    import fieldflow
    import guardtable as GT
    fl = dataflow.Flow(db, fn, binding)

    def sig(lv):
        out = set()
        for x in GT.norm_side(db, lv):
            if x.startswith(('op:', 'val:', 'lit:', 'idx:')):
                out.add(x)
            elif re.match(r'^a\d', x):
                out.add(fieldflow.canon(x))
            elif x.startswith('const:'):
                out.add(x.split('=')[0])
            elif x.startswith('call:'):
                out.add('call:' + x[5:].split('#')[0].split('::')[-1])
        return sorted(out)
    d = {}
    for b in fn.blocks:
        if b.get('cleanup'):
            continue
        for st in b['stmts']:
            if st['k'] == 'assign' and st['rv'].get('k') == 'agg' and st['rv'].get('agg') == 'adt' and st['rv'].get('fields'):
                adt = st['rv'].get('adt', '')
                if adt.startswith(('core::', 'alloc::')) or 'Error' in adt:
                    continue
                for k, o in zip(st['rv']['fields'], st['rv']['ops']):
                    key = f'{adt.split("::")[-1]}.{k}'
                    d[key] = sorted(set(d.get(key, [])) | set(sig(fl.operand_leaves(o))))
    return d


def call_sites_of(db, path, binding=None):
    """every (caller fn, block, terminator) whose resolved callee is `path`"""
    key = ('call_sites_of', path, tuple(sorted((binding or {}).items())))
    memo = db.__dict__.setdefault('_site_memo', {})
    if key not in memo:
        out = []
        for g in db.fns.values():
            if not g.has_mir:
                continue
            for bi, t in g.calls():
                if path in db.resolve(t['f'], binding or {}):
                    out.append((g, bi, t))
        memo[key] = out
    return memo[key]


def root_leaves(db, binding, root, fn, operand, depth=3):
    """leaves of `operand` (in fn) expressed over the parameters of the function `root`: when fn is a helper that
    root reaches, a parameter leaf 'aK.rest' is replaced by the leaves of the K-th argument at every call of the
    helper (+ '.rest'). A staged rewrite (root -> stage -> step) keeps the same root-level leaves."""
    import dataflow
    lv = dataflow.Flow(db, fn, binding).operand_leaves(operand)
    if fn.path == root or depth == 0:
        return set(lv) if fn.path == root else set()
    out = set()
    sites = call_sites_of(db, fn.path, binding)
    for lf in lv:
        m = re.match(r'a(\d+)((?:\..*)?)$', lf)
        if not m:
            continue
        k, rest = int(m.group(1)), m.group(2)
        for g, bi, t in sites:
            if k - 1 >= len(t.get('args', [])):
                continue
            for up in root_leaves(db, binding, root, g, t['args'][k - 1], depth - 1):
                out.add(up + rest if re.match(r'a\d+', up) else up)
    return out
