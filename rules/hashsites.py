"""A15 feature tables: which hasher a masked-hash site constructs and which digest bytes it keeps."""
import exprtree
import extract
from facts import op_place

EXPECT = {
    'keccak_160_lsb': ('Keccak256', (12, 32)), 'keccak_248_lsb': ('Keccak256', (1, 32)),
    'blake2s_160_lsb': ('Blake2s', (12, 32)), 'blake2s_248_lsb': ('Blake2s', (1, 32)),
}


def describe(db, fn):
    """(hasher names constructed, constant digest sub-ranges kept, update-arg trees)"""
    import common
    hashers, ranges = [], []
    # the function, the closures written inside it and the same-crate helpers it calls are one source-level body
    for body in common.bodies(db, fn, helpers=2):
        _describe_body(db, body, hashers, ranges)
    return hashers, ranges


def _describe_body(db, fn, hashers, ranges):
    T = exprtree.Trees(db, fn)
    for bi, t in fn.calls():
        f = t['f']
        if f.get('name') == 'new' and 'Digest' in (f.get('path') or ''):
            full = f.get('full') or ''
            if 'Keccak256Core' in full:
                hashers.append('Keccak256')
            elif 'Blake2sVarCore' in full:
                # Blake2s256: output size U32 = UInt<UInt<UInt<UInt<UInt<UInt<UTerm,B1>,B0>,B0>,B0>,B0>,B0>
                hashers.append('Blake2s' + ('256' if full.count('B0') == 5 and full.count('B1') == 1 else '?'))
            else:
                hashers.append(full[-60:])
        if f.get('name') == 'index' and len(t.get('args', [])) == 2:
            base = exprtree.show(T.operand(t['args'][0]))
            r = T.operand(t['args'][1])
            if 'finalize' in base and isinstance(r, tuple) and r[0] == 'agg' and r[1].startswith('core::ops::range::'):
                kind = r[1].split('::')[-1]
                fld = r[3]

                def cv(x):
                    return x[1] if isinstance(x, tuple) and x[0] == 'val' else None
                s_, e_ = cv(fld.get('start')), cv(fld.get('end'))
                if kind == 'Range' and s_ is not None and e_ is not None:
                    ranges.append((s_, e_))
                elif kind == 'RangeFrom' and s_ is not None:
                    ranges.append((s_, 32))
                elif kind == 'RangeTo' and e_ is not None:
                    ranges.append((0, e_))
                elif kind == 'RangeInclusive' and s_ is not None and e_ is not None:
                    ranges.append((s_, e_ + 1))
                else:
                    ranges.append(None)     # a digest sub-range in a form this rule cannot evaluate


def check_site(ctx, rep, rule, fnpath, what):
    for cname in ctx.ws_configs():
        db = ctx.db(cname)
        hf = extract.CONFIGS[cname]['hash']
        want_h, want_r = EXPECT[hf]
        fn = db.fn(fnpath, rule)
        hashers, ranges = describe(db, fn)
        if None in ranges:
            rep.fail_closed(rule, f'{what} under {hf}: digest sub-range not given by constants; cannot decide which bytes are kept')
            continue
        ok = len(hashers) == 1 and hashers[0].startswith(want_h) and (want_h != 'Blake2s' or hashers[0] == 'Blake2s256') \
            and ranges == [want_r]
        rep.ob(rule, f'{what}/{hf}', ok,
               f'{what} under {hf}: constructs {hashers}, keeps digest bytes {ranges}; expected {want_h}-256 and bytes [{want_r[0]}..{want_r[1]})',
               fn.loc(), cname, sample=(hf == 'keccak_160_lsb'))


def is_hash_helper(db, path):
    """a workspace function that is one application of the configured hasher to its (only) byte argument:
    new(); update(arg 1); finalize -- nothing else that changes bytes. Calls of it count as hash applications."""
    fn = db.fns.get(path)
    if fn is None or not fn.has_mir or fn.compact or fn.arg_count != 1:
        return False
    T = exprtree.Trees(db, fn)
    names = [t['f'].get('name') for _, t in fn.calls()]
    if names.count('update') != 1 or names.count('finalize') != 1 or \
            sum(1 for _, t in fn.calls() if t['f'].get('name') == 'new' and 'Digest' in (t['f'].get('path') or '')) != 1:
        return False
    if set(names) - {'new', 'update', 'finalize', 'to_vec', 'as_slice', 'into', 'deref', 'as_ref', 'from', 'clone', 'to_owned'}:
        return False
    for _, t in fn.calls():
        if t['f'].get('name') == 'update' and T.operand(t['args'][1]) != ('arg', 1):
            return False
    return 'finalize' in exprtree.show(T.local(0))


def applications(db, fn):
    """hash applications performed in fn itself, in block order: ('inline', block of the update call, operand hashed) for
    a hasher updated in fn, ('helper', block, operand) for a call of a hash helper"""
    out = []
    for bi, t in fn.calls():
        nm = t['f'].get('name')
        if nm == 'update' and 'digest' in (t['f'].get('path') or '').lower() and len(t['args']) > 1:
            out.append(('inline', bi, t['args'][1], t))
        else:
            r = t['f'].get('resolved') if t['f'].get('is_resolved') else None
            if r and is_hash_helper(db, r) and t.get('args'):
                out.append(('helper', bi, t['args'][0], t))
    return sorted(out, key=lambda x: x[1])
