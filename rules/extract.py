"""Fact extraction: runs the compiler driver over /repo for a set of build configurations and
caches the fact files keyed by a hash of /repo's working tree + the driver binary."""
import fcntl
import hashlib
import json
import os
import shutil
import subprocess
import sys
import time

VERIF = os.path.dirname(os.path.dirname(os.path.abspath(__file__)))
REPO = os.environ.get('SWV_REPO', '/repo')
CACHE = os.path.join(VERIF, '.cache')
DRIVER = os.path.join(VERIF, 'driver', 'target', 'release', 'swv-driver')
OFFLINE_CFG = os.path.join(VERIF, 'cargo-offline.toml')

LAYOUTS = ['dex', 'recursive', 'recursive_with_poseidon', 'small', 'starknet',
           'starknet_with_keccak', 'dynamic']
HASHES = ['keccak_160_lsb', 'keccak_248_lsb', 'blake2s_160_lsb', 'blake2s_248_lsb']
STONES = ['stone5', 'stone6']
WS_CRATES = ['swiftness_air', 'swiftness_commitment', 'swiftness_fri', 'swiftness_pow',
             'swiftness_stark', 'swiftness_transcript']


def ws_config(hash_feat, stone, std=True):
    feats = (['std'] if std else []) + LAYOUTS + [hash_feat, stone]
    return {'kind': 'workspace', 'features': feats, 'crates': WS_CRATES,
            'hash': hash_feat, 'stone': stone, 'std': std}


def cfg_name(hash_feat, stone):
    h = {'keccak_160_lsb': 'k160', 'keccak_248_lsb': 'k248', 'blake2s_160_lsb': 'b160',
         'blake2s_248_lsb': 'b248'}[hash_feat]
    return h + ('s5' if stone == 'stone5' else 's6')


CONFIGS = {}
for _h in HASHES:
    for _s in STONES:
        CONFIGS[cfg_name(_h, _s)] = ws_config(_h, _s)
CONFIGS['nostd'] = ws_config('keccak_160_lsb', 'stone5', std=False)
CONFIGS['parser'] = {'kind': 'shim', 'dir': 'proof_parser', 'features': None,
                     'crates': ['swiftness_proof_parser']}
for _l in LAYOUTS:
    CONFIGS['cli_' + _l] = {'kind': 'shim', 'dir': 'cli',
                            'features': [_l, 'keccak_160_lsb', 'stone5'],
                            'crates': ['swiftness', 'swiftness_proof_parser'] + WS_CRATES,
                            'layout': _l}

# the two combinations upstream CI runs + the two other hash variants with alternating stone
QUICK_WS = ['k160s5', 'b248s6', 'k248s6', 'b160s5']
THOROUGH_WS = [cfg_name(h, s) for h in HASHES for s in STONES]
MAIN = 'k160s5'


def shims_dir():
    """the shim crates point at /repo by absolute path; for another SWV_REPO a rewritten copy is used"""
    base = os.path.join(VERIF, 'shims')
    if os.path.realpath(REPO) == '/repo':
        return base
    tag = hashlib.sha256(os.path.realpath(REPO).encode()).hexdigest()[:10]
    dst = os.path.join(CACHE, 'shims-' + tag)
    for sub in ('proof_parser', 'cli'):
        os.makedirs(os.path.join(dst, sub), exist_ok=True)
        for f in ('Cargo.toml', 'Cargo.lock'):
            with open(os.path.join(base, sub, f)) as fh:
                txt = fh.read()
            txt = txt.replace('"/repo/', '"' + os.path.realpath(REPO) + '/')
            with open(os.path.join(dst, sub, f), 'w') as fh:
                fh.write(txt)
    return dst


def tree_hash():
    """sha256 over every file of /repo's working tree except target/ and .git/, + the driver."""
    h = hashlib.sha256()
    files = []
    for root, dirs, fs in os.walk(REPO):
        rel = os.path.relpath(root, REPO)
        if rel == '.':
            dirs[:] = [d for d in dirs if d not in ('target', '.git')]
        dirs.sort()
        for f in sorted(fs):
            files.append(os.path.join(root, f))
    for p in files:
        try:
            with open(p, 'rb') as fh:
                data = fh.read()
        except OSError:
            continue
        h.update(os.path.relpath(p, REPO).encode())
        h.update(b'\0')
        h.update(hashlib.sha256(data).digest())
    with open(DRIVER, 'rb') as fh:
        h.update(hashlib.sha256(fh.read()).digest())
    return h.hexdigest()[:24]


def sysroot_lib():
    out = subprocess.run(['rustc', '+nightly', '--print', 'sysroot'], capture_output=True,
                         text=True, check=True).stdout.strip()
    return os.path.join(out, 'lib')


class ExtractError(Exception):
    pass


def _clean_fingerprints(target):
    fp = os.path.join(target, 'debug', '.fingerprint')
    if os.path.isdir(fp):
        for d in os.listdir(fp):
            if d.startswith('swiftness'):
                shutil.rmtree(os.path.join(fp, d), ignore_errors=True)


def extract(config, thash=None, log=None):
    """Returns the directory holding the fact files of `config` for the current /repo tree."""
    if thash is None:
        thash = tree_hash()
    cfg = CONFIGS[config]
    out = os.path.join(CACHE, 'facts', thash, config)
    marker = os.path.join(out, 'DONE')
    if os.path.exists(marker):
        return out
    os.makedirs(os.path.join(CACHE, 'locks'), exist_ok=True)
    # one lock per target dir: cargo would serialise on it anyway
    tname = 'target-ws' if cfg['kind'] == 'workspace' else 'target-shim'
    with open(os.path.join(CACHE, 'locks', tname + '.lock'), 'w') as lk:
        fcntl.flock(lk, fcntl.LOCK_EX)
        if os.path.exists(marker):
            return out
        if os.path.isdir(out):
            shutil.rmtree(out)
        os.makedirs(out)
        target = os.path.join(CACHE, tname)
        _clean_fingerprints(target)
        env = dict(os.environ)
        env.update({
            'LD_LIBRARY_PATH': sysroot_lib(),
            'RUSTFLAGS': '-Zmir-opt-level=0 -Awarnings',
            'SWV_OUT': out,
            'SWV_ROOTS': REPO + ':' + shims_dir() + ':' + os.path.join(VERIF, 'shims'),
            'SWV_RUN_ID': thash,
            'SWV_CONFIG': config,
            'SWV_FULL': 'check_asserts',
            'CARGO_TARGET_DIR': target,
            'CARGO_NET_OFFLINE': 'true',
        })
        env.pop('RUSTC_WRAPPER', None)
        env.pop('RUSTC_WORKSPACE_WRAPPER', None)
        if cfg['kind'] == 'workspace':
            env['RUSTC_WORKSPACE_WRAPPER'] = DRIVER
            cwd = REPO
            cmd = ['cargo', '+nightly', '--config', OFFLINE_CFG, 'check', '--locked', '--lib',
                   '-p', 'swiftness_stark', '--no-default-features',
                   '--features', ','.join(cfg['features'])]
        else:
            env['RUSTC_WRAPPER'] = DRIVER
            cwd = os.path.join(shims_dir(), cfg['dir'])
            cmd = ['cargo', '+nightly', '--config', OFFLINE_CFG, 'check', '--lib']
            if cfg['features'] is not None:
                cmd += ['--no-default-features', '--features', ','.join(cfg['features'])]
        t0 = time.time()
        p = subprocess.run(cmd, cwd=cwd, env=env, capture_output=True, text=True)
        dt = time.time() - t0
        if log:
            log(f'extract {config}: {dt:.1f}s rc={p.returncode}')
        if p.returncode != 0:
            with open(os.path.join(out, 'build.log'), 'w') as fh:
                fh.write(p.stdout + '\n' + p.stderr)
            raise ExtractError(f'build of config {config} failed (see {out}/build.log):\n'
                               + '\n'.join((p.stderr or '').splitlines()[-25:]))
        missing = [c for c in cfg['crates'] if not os.path.exists(os.path.join(out, c + '.json'))]
        if missing:
            raise ExtractError(f'config {config}: no fact file for {missing} (driver skipped?)')
        with open(marker, 'w') as fh:
            json.dump({'config': config, 'tree': thash, 'wall_s': dt}, fh)
    return out


def prune_cache(keep_hash):
    """Keep only the fact directories of the current tree and the previous two."""
    base = os.path.join(CACHE, 'facts')
    if not os.path.isdir(base):
        return
    ds = sorted((os.path.getmtime(os.path.join(base, d)), d) for d in os.listdir(base))
    for _, d in ds[:-3]:
        if d != keep_hash:
            shutil.rmtree(os.path.join(base, d), ignore_errors=True)


if __name__ == '__main__':
    th = tree_hash()
    for c in sys.argv[1:]:
        print(c, extract(c, th, log=print))
