"""Control-flow rules: exit classification (A3), result discipline (A4), must-pass-through (A7)."""
from facts import op_place, ty_is_result, ty_is_option

TRY_BRANCH = 'core::ops::try_trait::Try::branch'
FROM_RESIDUAL = 'core::ops::try_trait::FromResidual::from_residual'

# combinators through which the error state of a Result/Option is carried to the destination
CARRY = {
    'map_err', 'map', 'and', 'and_then', 'inspect_err', 'inspect', 'copied',
    'cloned', 'as_ref', 'as_mut', 'ok_or', 'ok_or_else', 'ok', 'transpose', 'flatten',
    'map_or_else_carry', 'into', 'from', 'as_deref', 'zip', 'filter',
}
# a.or(b) / a.or_else(f) / a.xor(b): the receiver's failure is replaced by the alternative
REPLACE = {'or', 'or_else', 'xor'}
UNWRAP = {'unwrap', 'expect', 'unwrap_unchecked', 'unwrap_err', 'expect_err'}
SWALLOW = {'unwrap_or', 'unwrap_or_else', 'unwrap_or_default', 'map_or', 'map_or_else', 'err',
           'iter', 'into_iter', 'is_some_and', 'is_ok_and', 'is_none_or', 'unwrap_or_else'}
PRED_OK = {'is_ok', 'is_some'}
PRED_ERR = {'is_err', 'is_none'}


def callee_name(t):
    return t['f'].get('name', '')


def callee_path(t):
    f = t['f']
    return f.get('path', '')


def is_result_like(ty):
    return ty_is_result(ty) or ty_is_option(ty) or ty.startswith('core::ops::control_flow::ControlFlow<')


def returns_result(fn):
    """the function reports failure through its return value (Result, or Option with None = failure)"""
    out = fn.d.get('output') or (fn.locals[0]['ty'] if fn.locals else '')
    return ty_is_result(out) or ty_is_option(out)


def returns_bool(fn):
    out = fn.d.get('output') or (fn.locals[0]['ty'] if fn.locals else '')
    return out == 'bool'


def exit_blocks(fn):
    """(accept_blocks, reject_blocks): blocks that assign the return place an accepting /
    rejecting value. For functions that do not return Result every return is accepting."""
    acc, rej = set(), set()
    if returns_bool(fn):
        # a predicate: returning the constant false is its rejecting exit
        for i, b in enumerate(fn.blocks):
            if b.get('cleanup'):
                continue
            for s in b['stmts']:
                if s['k'] == 'assign' and s['place']['l'] == 0 and not s['place']['p']:
                    c = s['rv'].get('a', {}).get('c') if s['rv']['k'] == 'use' else None
                    if c is not None and c.get('ty') == 'bool' and c.get('val') == '0':
                        rej.add(i)
                    else:
                        acc.add(i)
            t = b['term']
            if t['k'] == 'call' and t.get('dest') and t['dest']['l'] == 0 and not t['dest']['p']:
                acc.add(i)
        return acc, rej
    if not returns_result(fn):
        return set(fn.return_blocks()), set()
    for i, b in enumerate(fn.blocks):
        if b.get('cleanup'):
            continue
        for s in b['stmts']:
            if s['k'] != 'assign' or s['place']['l'] != 0 or s['place']['p']:
                continue
            rv = s['rv']
            if rv['k'] == 'agg' and rv.get('agg') == 'adt' and rv['adt'] == 'core::result::Result':
                (acc if rv['variant'] == 'Ok' else rej).add(i)
            elif rv['k'] == 'agg' and rv.get('agg') == 'adt' and rv['adt'] == 'core::option::Option':
                (acc if rv['variant'] == 'Some' else rej).add(i)
            else:
                acc.add(i)  # delegating move of a Result local: may accept
        t = b['term']
        if t['k'] == 'call' and t.get('dest') and t['dest']['l'] == 0 and not t['dest']['p']:
            if callee_path(t) == FROM_RESIDUAL:
                rej.add(i)
            else:
                acc.add(i)  # delegating call: accepts iff the callee accepts
    return acc, rej


def reach_accept(fn):
    """set of blocks from which an accepting assignment of the return place is reachable"""
    acc, rej = exit_blocks(fn)
    if returns_bool(fn):
        # paths through a `false` assignment are cut there
        return fn.can_reach(acc, removed=rej - acc)
    return fn.can_reach(acc)


def _uses_local(op, l):
    p = op_place(op)
    return p is not None and p['l'] == l


class ResUse:
    def __init__(self, kind, detail, bb, line):
        self.kind = kind      # checked | returned | unwrapped | swallowed | escaped
        self.detail = detail
        self.bb = bb
        self.line = line

    def __repr__(self):
        return f'{self.kind}:{self.detail}@L{self.line}'


def result_uses(fn, start_local, ra=None):
    """Follow a Result/Option value from `start_local` to its consuming uses."""
    if ra is None:
        ra = reach_accept(fn)
    uses = []
    carriers = {}   # local -> kind ('res' | 'bool_ok' | 'bool_err')
    work = [(start_local, 'res')]
    while work:
        c, kind = work.pop()
        if c in carriers:
            continue
        carriers[c] = kind
        if c == 0:
            uses.append(ResUse('returned', 'return place', -1, fn.span['lo']))
            continue
        for bi, b in enumerate(fn.blocks):
            if b.get('cleanup'):
                continue
            for s in b['stmts']:
                if s['k'] != 'assign':
                    continue
                rv = s['rv']
                d = s['place']
                k = rv['k']
                if k == 'use' and _uses_local(rv['a'], c):
                    src = op_place(rv['a'])
                    if not src['p']:
                        if d['p']:
                            uses.append(ResUse('escaped', 'stored into a field', bi, s['line']))
                        else:
                            work.append((d['l'], kind))
                    else:
                        # payload extraction: (c as Break).0 carries the residual, others do not
                        pj = src['p']
                        names = [e.get('n') for e in pj if isinstance(e, dict)]
                        if 'Break' in names and not d['p']:
                            work.append((d['l'], kind))
                elif k == 'ref' and rv['place']['l'] == c and not rv['place']['p'] and not d['p']:
                    work.append((d['l'], kind))
                elif k == 'discr' and rv['place']['l'] == c and not d['p']:
                    _switch_use(fn, d['l'], bi, kind, ra, uses, s['line'])
                elif k == 'un' and rv['op'] == 'Not' and _uses_local(rv['a'], c) and not d['p']:
                    nk = {'bool_ok': 'bool_err', 'bool_err': 'bool_ok'}.get(kind)
                    if nk:
                        work.append((d['l'], nk))
                elif k == 'agg' and any(_uses_local(o, c) for o in rv['ops']):
                    if kind == 'res':
                        idx = [i for i, o in enumerate(rv['ops']) if _uses_local(o, c)]
                        if rv.get('agg') == 'tuple' and not d['p'] and len(idx) == 1 and \
                                _tuple_field_uses(fn, d['l'], idx[0], kind, ra, uses, work):
                            continue
                        uses.append(ResUse('escaped', 'placed in an aggregate', bi, s['line']))
            t = b['term']
            if t['k'] == 'switch' and _uses_local(t['op'], c) and kind in ('bool_ok', 'bool_err'):
                _bool_switch_use(fn, t, bi, kind, ra, uses)
            if t['k'] != 'call':
                continue
            args = t.get('args', [])
            if not any(_uses_local(a, c) for a in args):
                continue
            if kind != 'res':
                continue
            name = callee_name(t)
            path = callee_path(t)
            first = bool(args) and _uses_local(args[0], c)
            d = t['dest']
            stdish = path.startswith('core::result::Result') or path.startswith('core::option::Option') \
                or path.startswith('core::ops::try_trait') or path.startswith('core::ops::control_flow') \
                or path in ('core::convert::Into::into', 'core::convert::From::from')
            if path == TRY_BRANCH:
                work.append((d['l'], 'res'))
            elif path == FROM_RESIDUAL:
                if d['l'] == 0 and not d['p']:
                    uses.append(ResUse('returned', '?', bi, t['line']))
                else:
                    work.append((d['l'], 'res'))
            elif stdish and name in UNWRAP:
                uses.append(ResUse('unwrapped', name, bi, t['line']))
            elif stdish and name in PRED_OK and first:
                work.append((d['l'], 'bool_ok'))
            elif stdish and name in PRED_ERR and first:
                work.append((d['l'], 'bool_err'))
            elif stdish and name in SWALLOW:
                uses.append(ResUse('swallowed', name, bi, t['line']))
            elif stdish and name in REPLACE:
                if first:
                    uses.append(ResUse('swallowed', name + ' (the failure of the receiver is replaced by the alternative)', bi, t['line']))
                elif d['p']:
                    uses.append(ResUse('escaped', 'stored into a field', bi, t['line']))
                else:
                    work.append((d['l'], 'res'))
            elif stdish and name in CARRY:
                if d['p']:
                    uses.append(ResUse('escaped', 'stored into a field', bi, t['line']))
                else:
                    work.append((d['l'], 'res'))
            else:
                uses.append(ResUse('escaped', 'passed to ' + (t['f'].get('full') or path or 'indirect call'),
                                   bi, t['line']))
    return uses, carriers


def _tuple_field_uses(fn, tl, idx, kind, ra, uses, work):
    """`match (r1, r2) { (Err(e), _) => .., (Ok(..), Err(e)) => .., (Ok(..), Ok(..)) => .. }`: the carrier sits in field
    `idx` of the local tuple `tl`. Handled when the tuple is only matched (discriminant reads of its fields, payload
    extraction, a whole field moved out): the field counts as checked when a switch on its discriminant has a
    rejecting arm and every accepting path passes that switch (later reads, e.g. the drop elaboration at the end of
    the scope, decide nothing any more). Returns False when the tuple is used in any other way."""
    found = []
    for bi, b in enumerate(fn.blocks):
        if b.get('cleanup'):
            continue
        for s in b['stmts']:
            if s['k'] != 'assign':
                continue
            rv, d = s['rv'], s['place']
            if rv['k'] == 'discr' and rv['place']['l'] == tl:
                pj = rv['place']['p']
                if len(pj) == 1 and pj[0].get('f') == idx and not d['p']:
                    tmp = []
                    _switch_use(fn, d['l'], bi, kind, ra, tmp, s['line'])
                    found += tmp
                continue
            if rv['k'] == 'use' and _uses_local(rv['a'], tl):
                pj = op_place(rv['a'])['p']
                if not pj:
                    return False                     # the tuple itself moves on
                if pj[0].get('f') == idx and len(pj) == 1:
                    if d['p']:
                        return False
                    work.append((d['l'], kind))     # the whole field is moved out: follow it
                continue
            if rv['k'] in ('ref', 'agg'):
                ops = [rv['place']] if rv['k'] == 'ref' else [op_place(o) for o in rv['ops']]
                if any(o is not None and o['l'] == tl and (not o['p'] or (o['p'][0].get('f') == idx and len(o['p']) == 1))
                       for o in ops):
                    return False
        t = b['term']
        if t['k'] == 'call':
            for a in t.get('args', []):
                o = op_place(a)
                if o is not None and o['l'] == tl and (not o['p'] or (o['p'][0].get('f') == idx and len(o['p']) == 1)):
                    return False
    deciding = [u for u in found if u.kind == 'checked' and must_pass_through(fn, {u.bb}, 'accept') is None]
    if deciding:
        uses.append(deciding[0])
        return True
    if found:
        uses.append(ResUse('swallowed', 'tuple field matched, but an accepting path avoids every switch with a rejecting arm',
                           found[0].bb, found[0].line))
        return True
    return False


def _switch_use(fn, dl, bi, kind, ra, uses, line):
    """discriminant local `dl` of a Result/ControlFlow/Option carrier is switched on"""
    for bj, b in enumerate(fn.blocks):
        t = b['term']
        if b.get('cleanup') or t['k'] != 'switch' or not _uses_local(t['op'], dl):
            continue
        # variant 1 = Err / Break; for Option variant 0 = None. We do not know the ADT here, so
        # require: at least one arm cannot reach an accepting exit (the error arm) -> checked.
        arms = [x[1] for x in t['targets']] + [t['otherwise']]
        live = [a for a in arms if fn.blocks[a]['term']['k'] != 'unreachable']
        dead_arm = [a for a in live if a not in ra]
        if dead_arm:
            uses.append(ResUse('checked', 'match/? with a rejecting arm', bj, t['line']))
        else:
            uses.append(ResUse('swallowed', 'matched, but every arm continues to an accepting exit', bj, t['line']))


def _bool_switch_use(fn, t, bi, kind, ra, uses):
    # SwitchInt on bool: value 0 -> false target, otherwise -> true target
    false_t = None
    for v, tgt in t['targets']:
        if v == '0':
            false_t = tgt
    true_t = t['otherwise']
    err_side = true_t if kind == 'bool_err' else false_t
    if err_side is None:
        return
    if err_side not in ra:
        uses.append(ResUse('checked', 'is_ok/is_err branch rejects', bi, t['line']))
    else:
        uses.append(ResUse('swallowed', 'is_ok/is_err result does not reject', bi, t['line']))


def result_discipline(fn, want_ty=ty_is_result):
    """For every call in fn whose destination type satisfies `want`: (bb, term, uses, verdict)"""
    out = []
    ra = reach_accept(fn)
    for bi, t in fn.calls():
        if not want_ty(t['dest_ty']):
            continue
        path = callee_path(t)
        if path in (FROM_RESIDUAL,):
            continue
        # combinator/`?` plumbing is followed from the originating call, not analysed on its own
        name = callee_name(t)
        if (path.startswith('core::result::Result') or path.startswith('core::option::Option')) \
                and name in (CARRY | REPLACE) and t.get('args'):
            a0 = op_place(t['args'][0])
            if a0 is not None and not a0['p'] and (ty_is_result(fn.local_ty(a0['l'])) or
                                                   fn.local_ty(a0['l']).startswith('core::ops::control_flow')
                                                   or want_ty(fn.local_ty(a0['l']))):
                continue
        d = t['dest']
        if d['p']:
            out.append((bi, t, [ResUse('escaped', 'stored into a field', bi, t['line'])], 'escaped'))
            continue
        uses, _ = result_uses(fn, d['l'], ra)
        kinds = {u.kind for u in uses}
        if not uses:
            verdict = 'dropped'
        elif 'swallowed' in kinds:
            verdict = 'swallowed'
        elif 'escaped' in kinds:
            verdict = 'escaped'
        else:
            verdict = 'ok'
        out.append((bi, t, uses, verdict))
    return out


def must_pass_through(fn, pred_blocks, mode='accept', loop=None):
    """pred_blocks: set of block ids that satisfy the obligation. Returns None if the obligation
    holds, else a witness path (list of blocks) that avoids them."""
    removed = set(pred_blocks)
    if mode == 'accept':
        acc, _ = exit_blocks(fn)
        targets = acc - removed
        return _path(fn, 0, targets, removed)
    elif mode == 'iteration':
        latch, header = loop
        # `continue` gives a loop several back edges: an iteration ends at any latch of the same header
        latches = {l for l, h in fn.backedges if h == header} | {latch}
        if header in removed or latches <= removed:
            return None
        # a path header -> ... -> latch avoiding removed blocks
        return _path(fn, header, latches - removed, removed)
    raise ValueError(mode)


def _path(fn, start, targets, removed):
    if start in removed:
        return None
    prev = {start: None}
    st = [start]
    while st:
        b = st.pop(0)
        if b in targets:
            out = []
            while b is not None:
                out.append(b)
                b = prev[b]
            return out[::-1]
        for s in fn.succ(b):
            if s not in prev and s not in removed:
                prev[s] = b
                st.append(s)
    return None


def blocks_calling(fn, db, targets, binding=None):
    """blocks of fn whose terminator calls one of `targets` (resolved local paths or names)"""
    out = set()
    for bi, t in fn.calls():
        res = db.resolve(t['f'], binding)
        if any(r in targets for r in res) or callee_path(t) in targets:
            out.add(bi)
    return out


def blocks_reaching(fn, db, targets, binding=None):
    """blocks of fn whose terminator calls one of `targets` directly or a workspace function from which one of them is
    reachable in the call graph (a stage function, a helper): 'the call that leads to X' however the code is staged"""
    out = set()
    memo = {}

    def reaches(p):
        if p not in memo:
            memo[p] = p in targets or any(x in targets for x in db.reach([p], binding))
        return memo[p]
    for bi, t in fn.calls():
        res = db.resolve(t['f'], binding)
        if any(reaches(r) for r in res) or callee_path(t) in targets:
            out.add(bi)
    return out


def path_lines(fn, path):
    return [fn.blocks[b]['term']['line'] for b in path]
