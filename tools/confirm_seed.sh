#!/bin/bash
# confirm a seeded change in its scratch worktree: suite passes with the change, demo fails with it and passes without
# usage: confirm_seed.sh <id> <worktree> <demo target path in worktree> <demo cargo args...>
ID=$1; WT=$2; DEMO=$3; shift 3
cd $WT || exit 2
git checkout -q -- . ; git clean -fdq crates cli proof_parser
mkdir -p $(dirname $DEMO); cp /verif/seeded/$ID/demo.rs $DEMO
case "$DEMO" in */src/tests/*) echo "pub mod $(basename $DEMO .rs);" >> $(dirname $DEMO)/mod.rs;; esac
demo_clean=$(cargo test --offline "$@" 2>&1 | grep -E "^test result" | head -1)
git apply /verif/seeded/$ID/patch.diff || { echo "PATCH FAILS"; exit 1; }
demo_mut=$(timeout 600 cargo test --offline "$@" 2>&1 | grep -E "^test result|error\[" | head -1)
rm -f $DEMO; case "$DEMO" in */src/tests/*) git checkout -q -- $(dirname $DEMO)/mod.rs;; esac
suite=$(cargo test --workspace --no-fail-fast --offline 2>&1 | grep -E "^test result" | awk '{p+=$4; f+=$6} END {print p" passed "f" failed"}')
git checkout -q -- . ; git clean -fdq crates cli proof_parser
echo "$ID | demo on clean: $demo_clean | demo with change: $demo_mut | suite with change: $suite"
