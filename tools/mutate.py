#!/usr/bin/env python3
"""Classic single-edit mutants of the anchored hand-written sources, to test the checks (not part of any verdict).

  mutate.py gen                      -> /verif/selftest/mutants/candidates.json  (all candidate edits)
  mutate.py run [-jN] [--max M] [--only <substr>]
        for each candidate (sampled round-robin over files/operators): scratch copy of /repo, apply the edit,
        `cargo test --workspace --offline` must still pass (a mutant the suite kills is not interesting), then run
        the 18 quick checks with SWV_REPO and record which fire -> /verif/selftest/mutants/RESULTS.json
Never touches /repo. Scratch copies and per-worker target directories live under /tmp and are removed at the end."""
import json, os, re, subprocess, sys, tempfile, shutil, hashlib
from concurrent.futures import ThreadPoolExecutor

V = os.path.dirname(os.path.dirname(os.path.abspath(__file__)))
OUT = V + '/selftest/mutants'
CHECKS = ['C01', 'C02', 'C03', 'C04', 'C05', 'C06', 'C07', 'C08', 'C09', 'C10', 'C11', 'C12', 'C13', 'C14', 'C16', 'C17', 'C18', 'C19']
FILES = [
    'crates/stark/src/stark.rs', 'crates/stark/src/commit.rs', 'crates/stark/src/verify.rs', 'crates/stark/src/oods.rs',
    'crates/stark/src/queries.rs', 'crates/stark/src/config.rs',
    'crates/fri/src/fri.rs', 'crates/fri/src/config.rs', 'crates/fri/src/layer.rs', 'crates/fri/src/formula.rs',
    'crates/fri/src/first_layer.rs', 'crates/fri/src/last_layer.rs', 'crates/fri/src/group.rs',
    'crates/commitment/src/vector/decommit.rs', 'crates/commitment/src/vector/config.rs', 'crates/commitment/src/vector/commit.rs',
    'crates/commitment/src/table/decommit.rs', 'crates/commitment/src/table/commit.rs',
    'crates/transcript/src/transcript.rs', 'crates/pow/src/pow.rs', 'crates/pow/src/config.rs',
    'crates/air/src/public_memory.rs', 'crates/air/src/types.rs', 'crates/air/src/domains.rs', 'crates/air/src/trace/config.rs',
    'crates/air/src/diluted.rs', 'crates/air/src/layout/recursive/mod.rs', 'crates/air/src/layout/dynamic/mod.rs',
    'crates/air/src/layout/mod.rs', 'crates/air/src/trace/mod.rs',
]

FILES_PARSER = ['proof_parser/src/json_parser.rs', 'proof_parser/src/builtins.rs', 'proof_parser/src/layout.rs',
                'proof_parser/src/annotations/mod.rs', 'proof_parser/src/annotations/extract.rs',
                'proof_parser/src/annotations/annotation_kind.rs', 'cli/src/transform.rs']
SET = 'parser' if '--set' in sys.argv and sys.argv[sys.argv.index('--set') + 1] == 'parser' else 'workspace'
if '--set' in sys.argv and sys.argv[sys.argv.index('--set') + 1] == 'layouts':
    SET = 'layouts'
    FILES = ['crates/air/src/layout/%s/mod.rs' % l for l in ('dex', 'small', 'starknet', 'starknet_with_keccak', 'recursive_with_poseidon')]
    CHECKS = ['C01', 'C03', 'C13', 'C14', 'C16', 'C17', 'C18']
    OUT = OUT + '_layouts'
if SET == 'parser':
    FILES = FILES_PARSER
    CHECKS = ['C19', 'C03', 'C13']
    OUT = OUT + '_parser'

OPS = [
    ('lt->le', r'(?<![<=>!-])<(?![<=])\s', '<= '), ('le->lt', r'<=', '<'), ('gt->ge', r'(?<![-=>])>(?![>=])\s', '>= '), ('ge->gt', r'>=', '>'),
    ('eq->ne', r'==', '!='), ('ne->eq', r'!=', '=='), ('and->or', r'&&', '||'), ('or->and', r'\|\|', '&&'),
    ('plus1-gone', r'\s\+\s1\b', ' '), ('minus1-gone', r'\s-\s1\b', ' '), ('plusone-felt-gone', r'\s\+\sFelt::ONE\b', ' '),
    ('plus->minus', r'\s\+\s(?!=)', ' - '), ('minus->plus', r'\s-\s(?![=>])', ' + '), ('mul->add', r'\s\*\s(?!=)', ' + '),
]


def strip_tests(src):
    i = src.find('#[cfg(test)]')
    return src if i < 0 else src[:i]


def candidates():
    out = []
    for f in FILES:
        p = '/repo/' + f
        if not os.path.exists(p):
            continue
        src = open(p).read()
        body = strip_tests(src)
        lines = body.split('\n')
        for ln, line in enumerate(lines):
            s = line.strip()
            if not s or s.startswith(('//', '#[', 'use ', 'pub use', 'mod ', 'pub mod')) or 'thiserror' in s or s.startswith('#'):
                continue
            if 'error(' in s or s.startswith('Error') and '{' not in s:
                continue
            code = line.split('//')[0]
            # relational / arithmetic operators
            for name, pat, rep in OPS:
                for m in re.finditer(pat, code):
                    # generics `Vec<Felt>` and `->` are not comparisons
                    if name in ('lt->le', 'gt->ge') and re.search(r'[A-Za-z_]<[A-Za-z_&\[(]|::<|-> |=>', code):
                        continue
                    new = code[:m.start()] + rep + code[m.end():]
                    out.append({'file': f, 'line': ln + 1, 'op': name, 'old': line, 'new': new + line[len(code):]})
            # integer constants in const items
            m = re.match(r'^(\s*(?:pub(?:\([a-z]+\))?\s+)?const\s+\w+\s*:\s*[\w:]+\s*=\s*)(\d+)(\s*;.*)$', code)
            if m:
                v = int(m.group(2))
                for name, nv in (('const+1', v + 1), ('const-1', max(v - 1, 0)), ('constx2', v * 2)):
                    if nv != v:
                        out.append({'file': f, 'line': ln + 1, 'op': name, 'old': line, 'new': m.group(1) + str(nv) + m.group(3)})
            # `expr?;` statement whose value is unused: drop the verdict
            m = re.match(r'^(\s*)([\w:.<>&\[\]() ,*]+\([^;]*\))\?;\s*$', code)
            if m and not code.strip().startswith(('let ', 'return')):
                out.append({'file': f, 'line': ln + 1, 'op': 'drop-verdict', 'old': line, 'new': f'{m.group(1)}let _ = {m.group(2)};'})
        # literal indices and adjacent struct-literal fields (data-mapping code: which element / which field goes where)
        for ln, line in enumerate(lines):
            code = line.split('//')[0]
            for m in re.finditer(r'\[(\d+)\]', code):
                new = code[:m.start()] + '[%d]' % (int(m.group(1)) + 1) + code[m.end():]
                out.append({'file': f, 'line': ln + 1, 'op': 'index+1', 'old': line, 'new': new + line[len(code):]})
        off = 0
        for ln in range(len(lines) - 1):
            a = re.match(r'^(\s*)(\w+): (.+),\s*$', lines[ln])
            b = re.match(r'^(\s*)(\w+): (.+),\s*$', lines[ln + 1])
            if a and b and a.group(1) == b.group(1) and a.group(3) != b.group(3) and '{' not in a.group(3) + b.group(3):
                start = sum(len(x) + 1 for x in lines[:ln])
                end = start + len(lines[ln]) + 1 + len(lines[ln + 1]) + 1
                txt = f'{a.group(1)}{a.group(2)}: {b.group(3)},\n{b.group(1)}{b.group(2)}: {a.group(3)},\n'
                out.append({'file': f, 'line': ln + 1, 'op': 'swap-fields', 'span': [start, end], 'old': lines[ln].strip() + ' / ' + lines[ln + 1].strip(), 'new': txt})
        # statement deletion: ensure!/assure!/assert! blocks and `if .. { return Err(..); }`
        for m in re.finditer(r'\n([ \t]*)(ensure|assure|assert|assert_eq)!\((?:[^;]|\n)*?\);\n', body):
            ln = body[:m.start() + 1].count('\n') + 1
            out.append({'file': f, 'line': ln, 'op': 'delete-check', 'span': [m.start() + 1, m.end()], 'old': m.group(0)[1:80], 'new': ''})
        for m in re.finditer(r'\n([ \t]*)if [^{;]*\{\s*\n\s*return Err\((?:[^;]|\n)*?\);\s*\n\s*\}\n', body):
            ln = body[:m.start() + 1].count('\n') + 1
            out.append({'file': f, 'line': ln, 'op': 'delete-check', 'span': [m.start() + 1, m.end()], 'old': m.group(0)[1:80], 'new': ''})
    for c in out:
        c['id'] = hashlib.sha1(json.dumps([c['file'], c['line'], c['op'], c['new']]).encode()).hexdigest()[:10]
    return out


def apply(c, root):
    p = os.path.join(root, c['file'])
    src = open(p).read()
    if 'span' in c:
        a, b = c['span']
        src = src[:a] + c.get('new', '') + src[b:]
    else:
        lines = src.split('\n')
        assert lines[c['line'] - 1] == c['old'], 'source moved'
        lines[c['line'] - 1] = c['new']
        src = '\n'.join(lines)
    open(p, 'w').write(src)


def one(c, worker):
    w = tempfile.mkdtemp(prefix='mutrepo.', dir='/tmp')
    tgt = f'/tmp/muttarget.{worker}'
    try:
        subprocess.run(['rsync', '-a', '--exclude', 'target', '--exclude', '.git', '/repo/', w + '/'], check=True)
        apply(c, w)
        if SET == 'parser':
            # proof_parser and cli are outside the workspace: 'live' = the mutant type-checks (fact extraction of the
            # parser and of one cli configuration succeeds); the parser's own 7 tests are not run
            envx = dict(os.environ, SWV_REPO=w)
            q = subprocess.run([sys.executable, V + '/rules/extract.py', 'parser', 'cli_recursive'], cwd=V, env=envx, capture_output=True, text=True)
            if q.returncode != 0 or 'ExtractError' in q.stderr or 'error' in q.stderr.lower():
                return c['id'], {'status': 'does-not-compile'}
            env2 = dict(os.environ, SWV_REPO=w, SWV_EVIDENCE_DIR=tempfile.mkdtemp(prefix='mutev.', dir='/tmp'))
            fired = {}
            for ck in CHECKS:
                q = subprocess.run([sys.executable, V + '/rules/main.py', ck], cwd=V, env=env2, capture_output=True, text=True)
                if q.returncode != 0:
                    keys = sorted({re.sub(r'\|\d+$', '', m) for m in re.findall(r'\(key ([^)]*)\)', q.stdout)})
                    fired[ck] = sorted({k.split('|')[0] for k in keys})[:6] or re.findall(r'ANALYSIS-INCOMPLETE rule=(\S+)', q.stdout)[:2]
            shutil.rmtree(env2['SWV_EVIDENCE_DIR'], ignore_errors=True)
            th = subprocess.run([sys.executable, '-c', 'import sys; sys.path.insert(0, sys.argv[1]); import extract; print(extract.tree_hash())',
                                 V + '/rules'], env=env2, capture_output=True, text=True).stdout.strip()
            if th and os.path.isdir(V + '/.cache/facts/' + th):
                shutil.rmtree(V + '/.cache/facts/' + th, ignore_errors=True)
            return c['id'], {'status': 'live', 'fired': fired}
        if SET == 'layouts':
            # the other layouts are behind cargo features the workspace suite does not build: 'live' = the layout type-checks
            lname = c['file'].split('/')[-2]
            envl = dict(os.environ, CARGO_TARGET_DIR=tgt, CARGO_NET_OFFLINE='true')
            q = subprocess.run(['cargo', 'check', '-q', '--offline', '-p', 'swiftness_air', '--no-default-features', '--features',
                                f'std,{lname},keccak_160_lsb,stone5'], cwd=w, env=envl, capture_output=True, text=True, timeout=1200)
            if q.returncode != 0:
                return c['id'], {'status': 'does-not-compile'}
            env2 = dict(os.environ, SWV_REPO=w, SWV_EVIDENCE_DIR=tempfile.mkdtemp(prefix='mutev.', dir='/tmp'))
            fired = {}
            for ck in CHECKS:
                q = subprocess.run([sys.executable, V + '/rules/main.py', ck], cwd=V, env=env2, capture_output=True, text=True)
                if q.returncode != 0:
                    keys = sorted({re.sub(r'\|\d+$', '', m) for m in re.findall(r'\(key ([^)]*)\)', q.stdout)})
                    fired[ck] = sorted({k.split('|')[0] for k in keys})[:6] or re.findall(r'ANALYSIS-INCOMPLETE rule=(\S+)', q.stdout)[:2]
            shutil.rmtree(env2['SWV_EVIDENCE_DIR'], ignore_errors=True)
            th = subprocess.run([sys.executable, '-c', 'import sys; sys.path.insert(0, sys.argv[1]); import extract; print(extract.tree_hash())',
                                 V + '/rules'], env=env2, capture_output=True, text=True).stdout.strip()
            if th and os.path.isdir(V + '/.cache/facts/' + th):
                shutil.rmtree(V + '/.cache/facts/' + th, ignore_errors=True)
            return c['id'], {'status': 'live', 'fired': fired}
        env = dict(os.environ, CARGO_TARGET_DIR=tgt, CARGO_NET_OFFLINE='true')
        import signal
        pr = subprocess.Popen(['cargo', 'test', '--workspace', '--no-fail-fast', '--offline', '-q'], cwd=w, env=env, stdout=subprocess.PIPE,
                              stderr=subprocess.STDOUT, text=True, start_new_session=True)
        try:
            txt, _ = pr.communicate(timeout=600)
        except subprocess.TimeoutExpired:
            os.killpg(pr.pid, signal.SIGKILL)      # a mutant that makes a test loop forever: the suite kills it
            pr.communicate()
            return c['id'], {'status': 'killed-by-suite', 'failed': 'timeout'}

        class _P:
            returncode = pr.returncode
        p = _P()
        if 'error[' in txt or 'error:' in txt and 'could not compile' in txt:
            return c['id'], {'status': 'does-not-compile'}
        passed = sum(int(x) for x in re.findall(r'test result: \w+\. (\d+) passed', txt))
        failed = sum(int(x) for x in re.findall(r'test result: \w+\. \d+ passed; (\d+) failed', txt))
        if failed or p.returncode != 0:
            return c['id'], {'status': 'killed-by-suite', 'failed': failed}
        if passed < 45:
            return c['id'], {'status': 'suite-incomplete', 'passed': passed}
        env2 = dict(os.environ, SWV_REPO=w, SWV_EVIDENCE_DIR=tempfile.mkdtemp(prefix='mutev.', dir='/tmp'))
        fired = {}
        for ck in CHECKS:
            q = subprocess.run([sys.executable, V + '/rules/main.py', ck], cwd=V, env=env2, capture_output=True, text=True)
            if q.returncode != 0:
                keys = sorted({re.sub(r'\|\d+$', '', m) for m in re.findall(r'\(key ([^)]*)\)', q.stdout)})
                fired[ck] = sorted({k.split('|')[0] for k in keys})[:6] or re.findall(r'ANALYSIS-INCOMPLETE rule=(\S+)', q.stdout)[:2]
        shutil.rmtree(env2['SWV_EVIDENCE_DIR'], ignore_errors=True)
        th = subprocess.run([sys.executable, '-c', 'import sys; sys.path.insert(0, sys.argv[1]); import extract; print(extract.tree_hash())',
                             V + '/rules'], env=env2, capture_output=True, text=True).stdout.strip()
        if th and os.path.isdir(V + '/.cache/facts/' + th):
            shutil.rmtree(V + '/.cache/facts/' + th, ignore_errors=True)
        return c['id'], {'status': 'live', 'fired': fired}
    except subprocess.TimeoutExpired:
        return c['id'], {'status': 'timeout'}
    except AssertionError as e:
        return c['id'], {'status': 'stale', 'why': str(e)}
    finally:
        shutil.rmtree(w, ignore_errors=True)


def main():
    os.makedirs(OUT, exist_ok=True)
    if sys.argv[1] == 'gen':
        cs = candidates()
        json.dump(cs, open(OUT + '/candidates.json', 'w'), indent=0)
        from collections import Counter
        print(len(cs), 'candidates;', Counter(c['op'] for c in cs).most_common())
        return
    jobs = max([int(a[2:]) for a in sys.argv[2:] if a.startswith('-j') and a[2:].isdigit()] or [4])
    mx = 10 ** 9
    only = None
    a = sys.argv[2:]
    for i, x in enumerate(a):
        if x == '--max':
            mx = int(a[i + 1])
        if x == '--only':
            only = a[i + 1]
    cs = json.load(open(OUT + '/candidates.json'))
    res = json.load(open(OUT + '/RESULTS.json')) if os.path.exists(OUT + '/RESULTS.json') else {}
    # round-robin over (file, op) so that a small budget is spread out
    buckets = {}
    for c in cs:
        if only and only not in c['file'] + c['op']:
            continue
        if c['id'] in res:
            continue
        buckets.setdefault((c['file'], c['op']), []).append(c)
    order = []
    while buckets and len(order) < mx:
        for k in sorted(buckets):
            if buckets[k]:
                order.append(buckets[k].pop(0))
                if len(order) >= mx:
                    break
        buckets = {k: v for k, v in buckets.items() if v}
    print(len(order), 'mutants to run with', jobs, 'workers', flush=True)
    byid = {c['id']: c for c in cs}
    import itertools, threading
    ctr = itertools.count()
    local = threading.local()

    def run(c):
        if not hasattr(local, 'w'):
            local.w = next(ctr)
        return one(c, local.w)
    with ThreadPoolExecutor(max_workers=jobs) as ex:
        for cid, r in ex.map(run, order):
            c = byid[cid]
            r.update({'file': c['file'], 'line': c['line'], 'op': c['op'], 'new': c['new'][:120].strip(), 'old': c['old'][:120].strip()})
            res[cid] = r
            print(cid, c['file'].split('/')[-1], c['line'], c['op'], r['status'], r.get('fired', ''), flush=True)
            json.dump(res, open(OUT + '/RESULTS.json', 'w'), indent=1, sort_keys=True)
    for i in range(jobs + 2):
        shutil.rmtree(f'/tmp/muttarget.{i}', ignore_errors=True)


if __name__ == '__main__':
    main()
