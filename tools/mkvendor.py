#!/usr/bin/env python3
"""Build a merged cargo *directory source* from every .crate in the offline registry cache.
The cache on this image is split over two index directories; neither cargo sees both, so all
cargo invocations of the framework use this directory source instead (see DESIGN 2.4)."""
import hashlib, json, os, sys, tarfile, glob, shutil
dst = sys.argv[1]
os.makedirs(dst, exist_ok=True)
n = 0
for crate in sorted(glob.glob(os.path.expanduser('~/.cargo/registry/cache/*/*.crate'))):
    name = os.path.basename(crate)[:-len('.crate')]
    out = os.path.join(dst, name)
    if os.path.exists(os.path.join(out, '.cargo-checksum.json')):
        n += 1
        continue
    if os.path.exists(out):
        shutil.rmtree(out)
    with open(crate, 'rb') as f:
        sha = hashlib.sha256(f.read()).hexdigest()
    with tarfile.open(crate, 'r:gz') as t:
        t.extractall(dst)
    with open(os.path.join(out, '.cargo-checksum.json'), 'w') as f:
        json.dump({'files': {}, 'package': sha}, f)
    n += 1
print(f'vendor: {n} crates in {dst}')
