#!/bin/bash
# apply a seeded patch to /repo, run the given checks (default: all), print one summary line per check, undo the patch
set -u
P="$1"; shift
CHECKS="${*:-C01 C02 C03 C04 C05 C06 C07 C08 C09 C10 C11 C12 C13 C14 C16 C17 C18 C19}"
cd /repo || exit 2
if [ -n "$(git status --porcelain)" ]; then echo "repo not clean"; exit 2; fi
git apply "$P" || { echo "patch does not apply"; exit 2; }
cd /verif
for c in $CHECKS; do
  out=$(./check $c 2>&1)
  nv=$(echo "$out" | grep -c "^VIOLATION")
  echo "$c: violations=$nv $(echo "$out" | tail -1 | sed 's/.*obligations, //')"
  if [ "$nv" != "0" ]; then echo "$out" | grep -E "\(key " | sed -E 's/.*\(key ([^)]*)\)$/    \1/' | sed -E 's/swiftness_//g' | cut -c1-180 | sort | uniq -c | sort -rn | head -6; echo "$out" | grep "INCOMPLETE" | cut -c1-200 | head -2; fi
done
git -C /repo checkout -- . ; git -C /repo clean -fdq crates cli proof_parser 2>/dev/null
git -C /repo status --porcelain | head -3
