#!/bin/sh
# scratch.sh <patch> <dir>: scratch copy of /repo with one patch applied (for debugging rules; remove it afterwards)
set -e
rm -rf "$2"; mkdir -p "$2"
rsync -a --exclude target --exclude .git /repo/ "$2/"
cd "$2" && git init -q && git add -A >/dev/null && git -c user.email=a@b -c user.name=x commit -qm base && git apply "$1"
