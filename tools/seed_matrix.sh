#!/bin/bash
# For every seeded change: copy /repo to a scratch dir, apply the patch there, run all quick checks against the copy
# (SWV_REPO), record which checks report a violation. Never touches /repo. Output: /verif/seeded/MATRIX.txt
V=$(cd "$(dirname "$0")/.." && pwd)
OUT=${1:-$V/seeded/MATRIX.txt}
shift
SEEDS=${*:-$(ls -d $V/seeded/*/ | xargs -n1 basename)}
: > $OUT.tmp
for s in $SEEDS; do
  [ -f $V/seeded/$s/patch.diff ] || continue
  W=$(mktemp -d /tmp/seedrepo.XXXXXX)
  rsync -a --exclude target --exclude .git /repo/ $W/ && (cd $W && git init -q && git add -A >/dev/null && git -c user.email=a@b -c user.name=x commit -qm base && git apply $V/seeded/$s/patch.diff) || { echo "$s: PATCH FAILS" >> $OUT.tmp; rm -rf $W; continue; }
  line="$s:"
  for c in C01 C02 C03 C04 C05 C06 C07 C08 C09 C10 C11 C12 C13 C14 C16 C17 C18 C19; do
    o=$(cd $V && SWV_REPO=$W SWV_EVIDENCE_DIR=/tmp/seed-evidence python3 rules/main.py $c 2>&1)
    nv=$(echo "$o" | grep -c "^VIOLATION")
    [ "$nv" != "0" ] && line="$line $c($nv)"
  done
  echo "$line" >> $OUT.tmp
  rm -rf $W
done
mv $OUT.tmp $OUT; cat $OUT
