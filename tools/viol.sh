#!/bin/bash
# summarise violations of a check: ./tools/viol.sh Cxx  -> count per (rule, function, kind)
cd "$(dirname "$0")/.."
./check "$@" 2>&1 | grep -E "\(key " | sed -E 's/.*\(key ([^)]*)\)$/\1/' | sed -E 's/\|[0-9]+$//' | sed 's/swiftness_proof_parser:://g; s/swiftness_//g' | cut -c1-170 | sort | uniq -c | sort -rn | head -${VIOL_N:-60}
