#!/usr/bin/env python3
"""(re)generate tables/c19_parser_signatures.json from the current /repo (run once on a tree whose parser was read and
confirmed; the table is then the reference for later changes)"""
import sys, json, os
V = os.path.dirname(os.path.dirname(os.path.abspath(__file__)))
sys.path.insert(0, V + '/rules')
sys.path.insert(0, V + '/rules/props')
import extract, facts
import props.c19 as c19
th = extract.tree_hash()
pdb = facts.DB(extract.extract('parser', th), 'parser')
sig = c19.parser_signatures(pdb)
json.dump({'_doc': 'per parser function: what each struct field it builds, and its return value, is computed from (source fields, '
                   'operations, constants by value, constant indices), as confirmed on the pinned tree', 'functions': sig, 'e2e': c19.parser_e2e(pdb)},
          open(V + '/tables/c19_parser_signatures.json', 'w'), indent=1, sort_keys=True)
print(len(sig), 'functions', sum(len(v) for v in sig.values()), 'entries')
