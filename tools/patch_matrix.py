#!/usr/bin/env python3
"""Runs every quick check against scratch copies of /repo with one patch applied each.
  patch_matrix.py seeded [ids...]   -> /verif/seeded/MATRIX.json    (expected: the target property's check fires)
  patch_matrix.py benign [names...] -> /verif/selftest/BENIGN.json  (expected: no check fires)
Never touches /repo. Not part of any verdict: it tests the machinery."""
import json, os, subprocess, sys, tempfile, shutil, glob, re
V = os.path.dirname(os.path.dirname(os.path.abspath(__file__)))
CHECKS = ['C01', 'C02', 'C03', 'C04', 'C05', 'C06', 'C07', 'C08', 'C09', 'C10', 'C11', 'C12', 'C13', 'C14', 'C16', 'C17', 'C18', 'C19']
kind = sys.argv[1]
if kind == 'seeded':
    items = {os.path.basename(os.path.dirname(p)): p for p in sorted(glob.glob(V + '/seeded/*/patch.diff'))}
    out = V + '/seeded/MATRIX.json'
else:
    items = {os.path.basename(p)[:-5]: p for p in sorted(glob.glob(V + '/selftest/benign/*.diff'))}
    out = V + '/selftest/BENIGN.json'
sel = [a for a in sys.argv[2:] if not a.startswith('-j')]
jobs = max([int(a[2:]) for a in sys.argv[2:] if a.startswith('-j')] or [1])
res = json.load(open(out)) if os.path.exists(out) else {}


def one(name, patch):
    w = tempfile.mkdtemp(prefix='patchrepo.', dir='/tmp')
    try:
        subprocess.run(['rsync', '-a', '--exclude', 'target', '--exclude', '.git', '/repo/', w + '/'], check=True)
        subprocess.run('git init -q && git add -A >/dev/null && git -c user.email=a@b -c user.name=x commit -qm base', shell=True, cwd=w, check=True)
        if subprocess.run(['git', 'apply', patch], cwd=w).returncode != 0:
            return name, {'error': 'patch does not apply to the current /repo'}
        env = dict(os.environ, SWV_REPO=w, SWV_EVIDENCE_DIR=tempfile.mkdtemp(prefix='patchev.', dir='/tmp'))
        fired = {}
        for c in CHECKS:
            p = subprocess.run([sys.executable, V + '/rules/main.py', c], cwd=V, env=env, capture_output=True, text=True)
            keys = sorted({re.sub(r'\|\d+$', '', m) for m in re.findall(r'\(key ([^)]*)\)', p.stdout)})
            inc = re.findall(r'ANALYSIS-INCOMPLETE rule=(\S+)', p.stdout)
            if p.returncode != 0:
                fired[c] = {'violations': p.stdout.count('\nVIOLATION') + p.stdout.startswith('VIOLATION'), 'rules': sorted({k.split('|')[0] for k in keys})[:8],
                            'incomplete': inc[:3]}
        shutil.rmtree(env['SWV_EVIDENCE_DIR'], ignore_errors=True)
        # the fact cache of the scratch tree is of no further use
        th = subprocess.run([sys.executable, '-c', 'import sys; sys.path.insert(0, sys.argv[1]); import extract; print(extract.tree_hash())',
                             V + '/rules'], env=env, capture_output=True, text=True).stdout.strip()
        if th and os.path.isdir(V + '/.cache/facts/' + th):
            shutil.rmtree(V + '/.cache/facts/' + th, ignore_errors=True)
        return name, {'fired': fired}
    finally:
        shutil.rmtree(w, ignore_errors=True)


from concurrent.futures import ThreadPoolExecutor
todo = [(n, p) for n, p in items.items() if not sel or n in sel]
with ThreadPoolExecutor(max_workers=jobs) as ex:
    for name, r in ex.map(lambda np: one(*np), todo):
        res[name] = r
        if 'fired' in r:
            print(name, '->', {c: v['rules'] or v['incomplete'] for c, v in r['fired'].items()}, flush=True)
        else:
            print(name, '->', r, flush=True)
        json.dump(res, open(out, 'w'), indent=1, sort_keys=True)
