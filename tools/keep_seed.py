#!/usr/bin/env python3
"""keep_seed.py <seed dir id> <demo clean result> <demo with change result> <suite result> <command...>
wraps the sub-agent's meta.json (already copied into /verif/seeded/<id>/) with my own confirmation"""
import json, sys, os
V = os.path.dirname(os.path.dirname(os.path.abspath(__file__)))
sid, clean, mut, suite = sys.argv[1:5]
cmds = sys.argv[5:]
p = f'{V}/seeded/{sid}/meta.json'
a = json.load(open(p))
if 'agent_meta' in a:
    a = a['agent_meta']
m = {
    'property': a.get('property', sid[:3]),
    'breaks': a.get('summary', ''),
    'needs_to_manifest': a.get('needs_to_manifest', ''),
    'files_changed': a.get('files_changed', []),
    'written_by': 'independent sub-agent given only the property record (plus a one-line hint which anchor of it to look at first) and a scratch worktree of /repo (HEAD 8a2eca9)',
    'confirmed_by_framework_author': {
        'worktree': f'/tmp/wt/{sid} (scratch git worktree of /repo, removed afterwards)',
        'commands': cmds,
        'demo_on_clean_tree': clean, 'demo_with_change': mut, 'existing_suite_with_change': suite,
    },
    'agent_meta': a,
}
json.dump(m, open(p, 'w'), indent=1)
