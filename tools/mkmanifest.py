#!/usr/bin/env python3
"""Regenerates MANIFEST.json from the table below (claimed properties = those with a module in
rules/props and an entry here)."""
import json
import os

VERIF = os.path.dirname(os.path.dirname(os.path.abspath(__file__)))
ids = [json.loads(l)['id'] for l in open(os.path.join(VERIF, 'properties.jsonl'))]

NOTE = ('Trusted base: rustc nightly MIR/HIR of the type-checked program at -Zmir-opt-level=0; the frozen '
        'tables under /verif/tables and in the rule modules; external crates (Felt ordering, '
        'pow complexity, hash functions) are not analysed. A structural necessary-condition '
        'check, not a proof of the behavioural property; see coverage.not_decided in the evidence.')

CLAIMS = {
    'C03': dict(
        technique='per-feature hasher/digest-range tables over the 4 hash build configurations (MIR callee types and constant '
                  'ranges), Cargo manifest feature wiring (tomllib), guard extraction + literal tables for layout codes, HIR table '
                  'agreement parser<->verifier (layout names, column counts), header push order under stone5/stone6',
        text='Decides that each build configuration selects the hash / digest bytes / PoW hash its feature names, that features '
             'are wired consistently across crates, that every layout rejects a foreign layout code and the parser emits the '
             'matching code and constants, and the Stone 5/6 digest preimage order. That the shipped proofs verify is an '
             'execution and is not decided. Added: which layers are masked at all (table flag = friendly layers >= height + 1; node flag = threshold >= node depth; threshold = configured count).',
        ref='4 C03'),
    'C04': dict(
        technique='must-pass-through + guard extraction (root comparison), Option result-discipline on every lookup of the Merkle '
                  'walk, hasher tables over the 4 hash configurations, ordered buffer events (preimage), def-use expression '
                  'reconstruction of the index arithmetic',
        text='Decides the binding comparison, that a missing node yields Err, the four hash variants and the preimage order, the '
             'friendly/masked selection and the parent/pair/stop index arithmetic. Completeness and binding of the queue walk '
             'for all shapes is not decided. Added: path-sensitive left/right argument order by the index bit, and that queue[start+1] is read only after start+1 != len.',
        ref='4 C04'),
    'C05': dict(
        technique='guard extraction (length guard), def-use expression reconstruction (Montgomery conversion, row slices, flag), '
                  'literal table (2^256 mod p), hasher tables over the 4 hash configurations, checked delegation',
        text='Decides the length guard, that every hashed cell is Montgomery-converted with the right constant, the row slice '
             'bounds, single-column bypass, friendly flag (height+1) and hash variants, and that the vector verdict is the '
             'table verdict. Hash binding is not decided. Added: Montgomery conversion exactly once (caller or callee); the row walk over a symbolic row index (loop / enumerate / zip-with-chunks).',
        ref='4 C05'),
    'C19': dict(
        technique='cast inventory and panic-site inventory over the MIR of the parser and CLI-conversion shim crates; Option '
                  'result-discipline for the repo\'s fallible parsers; field-flow coverage source->destination of transform_to; '
                  'HIR/ADT table agreement (builtin order vs segment indices, sorted key order vs DynamicParams field order)',
        text='Decides which conversions are lossy, which malformed inputs crash instead of returning Err, that no fallible parse '
             'result is swallowed, that no parsed field is dropped or invented by the conversion, and the three order tables. '
             'Regex semantics (which lines are selected) and main.rs are not decided. Added: field-to-field correspondence of the CLI conversion (incl. indexed fields), the parser\'s derivations (exact for small helpers, end-to-end additions-only otherwise), annotation kinds, main-page selection, log2 helper.',
        ref='4 C19'),
    'C18': dict(
        technique='panic-site inventory over the MIR of everything reachable from verify / config validation / public-input '
                  'validation (Assert terminators, diverging callees, catalogued partial APIs) with automatic dominating-guard '
                  'discharge rules, a reasoned safe-site table tied to named validation guards, sibling cross-check',
        text='Decides that every potential crash site is either provably guarded, explained (with the guard it depends on) or a '
             'listed genuine finding; any new or newly unguarded site is reported. Panics inside external crates outside the '
             'catalogue and probability-negligible zero divisions are not decided.',
        ref='4 C18'),
    'C13': dict(
        technique='leaf-set dataflow on PublicInput::get_hash under both Stone configurations (must-depend-on per field), '
                  'loop-carried accumulator rule, HIR table agreement of the two DynamicParams conversions with the struct '
                  'field order (340 positions)',
        text='Decides that the digest depends on every listed field, on both lengths, on the chain accumulator, on the friendly-'
             'layer count exactly under stone6, and that every dynamic parameter is flattened at its own position. Collision '
             'resistance and agreement with the prover are not decided. Added: only structure-preserving operations between the public input and the hashes (binding on every evaluation, not only may-flow); N_DYNAMIC_PARAMS equals the field count.',
        ref='4 C13'),
    'C14': dict(
        technique='per-layout guard tables generated from the layout\'s own segment/ratio declarations and compared both ways with '
                  'guards extracted from validate_public_input (exhaustiveness of builtin handlers); field-flow of main-page '
                  'addresses to rejecting comparisons in verify_public_input',
        text='Decides presence/operands/constants of every validation conjunct per layout incl. one usage guard per declared '
             'builtin segment, absence of other rejection conditions, the layout-code literal, and whether program/output cells '
             'are address-checked (today: genuine defect in all 7 layouts, listed in known_findings.json). Added: layout constants against a confirmed table; verify_public_input\'s entry conditions and the (offset, address, length) of its two extractions; safe_mult/safe_div shapes; the three dynamic unit budgets as sums of products with the specified coefficients.',
        ref='4 C14'),
    'C17': dict(
        technique='inventory of loops / iterator pipelines / allocations / recursion over Reach(verify) per layout; bounding '
                  'leaves substituted into verify\'s namespace and classified by static type; numeric proof fields must have a '
                  'dominating upper-bound guard',
        text='Decides that no loop, pipeline or allocation reachable from verify is bounded by a numeric proof field lacking a '
             'validated upper bound that precedes it, that the only recursion is the tabled Merkle walk, and that generated '
             'evaluators are loop-free. Actual time/memory and external-crate costs are not decided. Added: an upper bound validates a loop count / allocation size only if it is <= 2^24; the upper-bound conjuncts of the configuration statement are re-established as premises (C17.premise). A closed sub-slice of a configuration vector must end at its validated length (C17.premise|subslice, DESIGN 13.6).',
        ref='4 C17'),
    'C08': dict(
        technique='transcript event automaton: NFA abstraction of the accepting paths of verify::<Layout> (callees inlined) '
                  'compared for language EQUALITY with the protocol regex; leaf-set dataflow on the sponge methods; '
                  'who-may-write / who-may-call rules',
        text='Decides per layout that every prover message is absorbed exactly once and before the challenges that follow it, '
             'that the PoW digest is read before the nonce is absorbed, the sponge discipline of the 5 Transcript methods, '
             'who may write transcript state, distinct squeeze sites per challenge role, and absence of nondeterministic '
             'callees. Equality with the transcript the prover logged is not decided. Added: no loop bound or exit condition in a transcript-touching function depends on a squeezed value (the number of transcript operations is fixed by configuration). Added: a prover message is absorbed as sent (C08.verbatim: no in-place change of the vector between the proof field and the absorb).',
        ref='4 C08'),
    'C09': dict(
        technique='guard extraction + literal tables (difficulty bounds), dominance order rules, ordered mutation-event '
                  'sequences per buffer/hasher on straight-line MIR (preimage layout), per-feature hasher type table over '
                  'the 4 hash configurations',
        text='Decides the accepted difficulty set (20..=50), digest-read < verify_pow (checked) < nonce absorb, the byte layout '
             'of both preimages, the hasher type under each feature and the threshold shape (16 bytes = 128 bits, strict <). '
             'Bit-level equivalence of the threshold with "n leading zero bits" beyond that shape is not decided.',
        ref='4 C09'),
    'C10': dict(
        technique='typestate via dominance (collected -> sorted -> deduplicated -> returned), def-use expression reconstruction '
                  'of the sampling closure and of the point formula, literal tables',
        text='Decides that the returned index vector is sorted and deduplicated on every path, that each sample is a remainder '
             'modulo the evaluation-domain size, the sample count source, and the point formula 3*w^bitreverse64(i*2^(64-log)). '
             'Agreement with the prover-logged set is not decided. Added: the evaluation-domain closed forms (size 2^(t+c), generator 3^((p-1)/size)) of StarkDomains::new.',
        ref='4 C10'),
    'C02': dict(
        technique='field-flow coverage: interprocedural leaf-set dataflow from every leaf field of StarkProof (type closure '
                  'from the ADT table) to hash-argument / rejecting-comparison sinks with verdict propagation, per layout; '
                  'result-discipline dataflow; length-guard extraction',
        text='Decides that no proof field is a free position (each reaches a hash primitive or a rejecting comparison whose '
             'verdict reaches verify), that no verdict is dropped, and that the four length guards exist. That a changed '
             'value changes the hash (collision resistance) is not decided; absorb ordering is C08. Added: the public-input digest uses only structure-preserving operations (no filter / fallback / value-dependent branch); every byte of both children enters the masked node hash.',
        ref='4 C02'),
    'C07': dict(
        technique='transitive must-pass-through with verdict propagation (per loop iteration), guard extraction, field-flow '
                  'coverage from fri_verify',
        text='Decides that every FRI layer iteration folds and decommits with a propagated verdict, that the last-layer check '
             'and both length guards are on every accepting path, and that every FRI witness/commitment field reaches a '
             'hash or comparison sink. The probabilistic degree test is not decided.',
        ref='4 C07'),
    'C01': dict(
        technique='result-discipline dataflow over Reach(verify) (MIR), transitive must-pass-through chains with verdict '
                  'propagation per layout, guard extraction against a frozen guard table, HIR index-range agreement',
        text='Decides the structural necessary conditions the statement enumerates: OODS length coupling guard, FRI input '
             'size tied to the evaluation domain, blow-up exponent bounds, no dropped/swallowed Result in Reach(verify), every '
             'verification step on every accepting path with its verdict propagated, OODS equation operands. Soundness proper '
             '(that these checks force a satisfying trace) is not decided. Added after the seeded/mutation campaigns: layout/AIR constants against a confirmed table, periodic-column gating and argument signatures, GlobalValues input signatures.',
        ref='4 C01'),
    'C11': dict(
        technique='guard extraction (MIR comparison + branch classification, callees inlined by summary substitution) compared '
                  'both ways with a frozen guard table',
        text='Decides presence, operands (leaf sets), constants (by value) and relation of every conjunct of the statement on '
             'every accepting path of StarkConfig::validate, and that no other rejecting condition on a config field exists '
             '("exactly"). Residual assumption: Felt ordering compares canonical integers.',
        ref='4 C11'),
    'C06': dict(
        technique='literal tables vs integer oracle; def-use expression reconstruction of fri_formula{2,4,8,16} '
                  'interpreted in a polynomial abstract domain and compared with the fold specification as a '
                  'polynomial identity; guard-table agreement (accepted steps vs fold arms); leaf-set dataflow',
        text='Decides for ALL inputs that each fold arm equals 2^k*sum_j b^j*P_j(y) (polynomial identity over F_p '
             'from the MIR of the four formulas), that the order-16 group / OMEGA literals are the right roots of '
             'unity, that accepted step sizes and fold arms agree, and the per-iteration structure of coset '
             'gathering and the last-layer check. End-to-end completeness over all query sets is not decided.',
        ref='4 C06'),
    'C12': dict(
        technique='literal table vs integer oracle (generator test over the prime factors of p-1) + def-use '
                  'expression reconstruction of StarkDomains::new compared with the closed forms',
        text='Proves by a two-part static argument (3 generates F_p^*, exponents are (p-1)/2^(t+c) and (p-1)/2^t '
             'as reconstructed from MIR) that generator orders are exact for every (t,c) with t+c<=192, without '
             'enumeration. Correctness of pow_felt/field_div in the external crate is assumed.',
        ref='4 C12'),
    'C16': dict(
        technique='HIR abstract interpretation of the 14 generated evaluators (accumulator linearity, '
                  'index-set exhaustiveness, per-term dependency closure) + MIR leaf-set dataflow on stark_commit',
        text='Decides, for every coefficient position of every layout, that exactly one linear term '
             'coeff[i]*value exists, that its value depends on the right openings, that the coefficient '
             'vector is used nowhere else, and that dynamic-layout conditions are builtin flags only. '
             'Static, all inputs; algebraic non-vanishing of a term is not decided. Added: powers_array is the accumulator loop (coefficient i = alpha^i), parameter roles inferred.',
        ref='4 C16'),
}

NA = {
    'C15': 'algebraic identities over field values for all inputs (log-step recursion == 2^n-step recurrence; '
           'product ratio == padded product): no clause with discriminating power is in the shape of the code; '
           'needs symbolic algebra or exhaustive comparison (other families)',
}

checks = []
for pid in ids:
    if pid not in CLAIMS:
        continue
    c = CLAIMS[pid]
    checks.append({
        'property_id': pid,
        'quick_cmd': f'./check {pid} --tier quick',
        'thorough_cmd': f'./check {pid} --tier thorough',
        'evidence_file': f'/verif/evidence/{pid}.json',
        'replay_cmd_template': f'./check {pid} --replay {{path}}',
        'engine': 'swv-driver+rules',
        'level_claimed': {'category': 'other', 'text': c['text'], 'design_ref': 'DESIGN.md §' + c['ref']},
        'level_note': NOTE,
        'technique': c['technique'],
    })

na = []
for pid in ids:
    if pid in CLAIMS:
        continue
    na.append({'property_id': pid,
               'reason': NA.get(pid, 'static check not built yet (work in progress; see DESIGN.md for the plan)')})

m = {
    'version': 1,
    'setup_cmd': './setup.sh',
    'hooks': {
        'guard': 'swiftness_verif',
        'enable': 'none needed: static analysis observes /repo through a compiler driver '
                  '(RUSTC_WORKSPACE_WRAPPER), it does not instrument it; no hook commits exist',
        'baseline_off_cmd': 'cd /repo && cargo test --workspace --no-fail-fast --offline',
        'source_commits': [],
        'add_only': True,
    },
    'engines': [
        {'name': 'swv-driver', 'path': '/verif/driver',
         'serves_properties': [c['property_id'] for c in checks],
         'kind_free_text': 'rustc_private compiler driver (nightly) extracting MIR-lite/HIR-lite/type tables as JSON facts'},
        {'name': 'rules', 'path': '/verif/rules',
         'serves_properties': [c['property_id'] for c in checks],
         'kind_free_text': 'Python rule engine: call graph, CFG exit classification, result discipline, '
                           'must-pass-through, leaf-set dataflow, guard extraction, HIR interpretation, literal tables'},
    ],
    'checks': checks,
    'notes': 'All checks share one fact extraction per /repo tree state (cached under /verif/.cache by a hash of '
             "the working tree); every run re-hashes /repo and re-extracts when it changed. Known genuine defects "
             'are listed in /verif/known_findings.json.',
    'not_applicable': na,
}
with open(os.path.join(VERIF, 'MANIFEST.json'), 'w') as fh:
    json.dump(m, fh, indent=1)
print('claimed:', [c['property_id'] for c in checks])
