//! HIR-lite: a compact expression tree for a body. Used for literal tables (const initialisers,
//! `get_fri_group`), for the generated evaluators (too large to dump as MIR) and for table
//! agreement rules. Encoding: nested arrays, first element = tag.
use crate::json::J;
use crate::mirdump::def_str;
use crate::Cx;
use rustc_ast::ast::LitKind;
use rustc_hir as hir;
use rustc_hir::def::Res;
use rustc_middle::ty::TypeckResults;
use rustc_span::def_id::LocalDefId;

pub struct H<'a, 'tcx> {
    pub cx: &'a Cx<'tcx>,
    pub tr: &'tcx TypeckResults<'tcx>,
    pub lines: bool,
}

fn a(tag: &str, mut rest: Vec<J>) -> J {
    let mut v = vec![J::s(tag)];
    v.append(&mut rest);
    J::Arr(v)
}

pub fn body<'tcx>(cx: &Cx<'tcx>, ldid: LocalDefId) -> J {
    let tcx = cx.tcx;
    let Some(b) = tcx.hir_maybe_body_owned_by(ldid) else { return J::Null };
    let tr = tcx.typeck(ldid);
    let h = H { cx, tr, lines: false };
    let mut params = Vec::new();
    for p in b.params {
        params.push(h.pat(p.pat));
    }
    J::obj().with("params", J::Arr(params)).with("value", h.expr(b.value))
}

impl<'a, 'tcx> H<'a, 'tcx> {
    fn res(&self, r: Res) -> J {
        match r {
            Res::Local(id) => J::s(format!("L{}", id.local_id.as_u32())),
            Res::Def(_, did) => J::s(def_str(self.cx, did)),
            Res::SelfCtor(did) | Res::SelfTyAlias { alias_to: did, .. } => {
                J::s(def_str(self.cx, did))
            }
            other => J::s(format!("{:?}", other)),
        }
    }

    fn qpath(&self, q: &hir::QPath<'_>, id: hir::HirId) -> J {
        self.res(self.tr.qpath_res(q, id))
    }

    pub fn pat(&self, p: &hir::Pat<'_>) -> J {
        use hir::PatKind::*;
        match p.kind {
            Binding(_, id, ident, sub) => {
                let mut v = vec![J::s(format!("L{}", id.local_id.as_u32())), J::s(ident.to_string())];
                if let Some(s) = sub {
                    v.push(self.pat(s));
                }
                a("bind", v)
            }
            Wild => a("wild", vec![]),
            Tuple(ps, _) => a("ptup", ps.iter().map(|x| self.pat(x)).collect()),
            TupleStruct(ref q, ps, _) => {
                let mut v = vec![self.qpath(q, p.hir_id)];
                v.extend(ps.iter().map(|x| self.pat(x)));
                a("pts", v)
            }
            Struct(ref q, fs, _) => {
                let mut v = vec![self.qpath(q, p.hir_id)];
                for f in fs {
                    v.push(J::Arr(vec![J::s(f.ident.to_string()), self.pat(f.pat)]));
                }
                a("pstruct", v)
            }
            Ref(inner, ..) => a("pref", vec![self.pat(inner)]),
            Or(ps) => a("por", ps.iter().map(|x| self.pat(x)).collect()),
            Expr(e) => a("pexpr", vec![self.patexpr(e)]),
            Range(lo, hi, end) => a(
                "prange",
                vec![
                    lo.map(|e| self.patexpr(e)).unwrap_or(J::Null),
                    hi.map(|e| self.patexpr(e)).unwrap_or(J::Null),
                    J::s(format!("{:?}", end)),
                ],
            ),
            _ => a("pother", vec![]),
        }
    }

    fn patexpr(&self, e: &hir::PatExpr<'_>) -> J {
        match &e.kind {
            hir::PatExprKind::Lit { lit, negated } => {
                a("lit", vec![self.lit(&lit.node), J::Bool(*negated)])
            }
            hir::PatExprKind::Path(q) => a("path", vec![self.qpath(q, e.hir_id)]),
            #[allow(unreachable_patterns)]
            _ => a("other", vec![]),
        }
    }

    fn lit(&self, l: &LitKind) -> J {
        match l {
            LitKind::Str(s, _) => J::s(s.to_string()),
            LitKind::ByteStr(b, _) => J::obj().with(
                "bytes",
                J::s(b.as_byte_str().iter().map(|c| if (0x20..0x7f).contains(c) { *c as char } else { '\u{1}' }).collect::<String>()),
            ),
            LitKind::Int(n, _) => J::obj().with("int", J::s(format!("{}", n.get()))),
            LitKind::Bool(b) => J::Bool(*b),
            LitKind::Char(c) => J::obj().with("char", J::s(c.to_string())),
            LitKind::Byte(b) => J::obj().with("int", J::s(format!("{}", b))),
            LitKind::Float(s, _) => J::obj().with("float", J::s(s.to_string())),
            _ => J::obj().with("lit", J::s("other")),
        }
    }

    fn block(&self, b: &hir::Block<'_>) -> J {
        let mut v = Vec::new();
        for s in b.stmts {
            match s.kind {
                hir::StmtKind::Let(l) => {
                    let mut lv = vec![self.cx.line(l.span), self.pat(l.pat)];
                    lv.push(l.init.map(|e| self.expr(e)).unwrap_or(J::Null));
                    if let Some(els) = l.els {
                        lv.push(self.block(els));
                    }
                    v.push(a("let", lv));
                }
                hir::StmtKind::Expr(e) | hir::StmtKind::Semi(e) => v.push(self.expr(e)),
                hir::StmtKind::Item(_) => {}
            }
        }
        let tail = b.expr.map(|e| self.expr(e)).unwrap_or(J::Null);
        a("block", vec![J::Arr(v), tail])
    }

    pub fn expr(&self, e: &hir::Expr<'_>) -> J {
        use hir::ExprKind::*;
        let out = match e.kind {
            Path(ref q) => a("path", vec![self.qpath(q, e.hir_id)]),
            Lit(l) => a("lit", vec![self.lit(&l.node)]),
            Binary(op, l, r) => {
                a("bin", vec![J::s(format!("{:?}", op.node)), self.expr(l), self.expr(r)])
            }
            Unary(op, x) => a("un", vec![J::s(format!("{:?}", op)), self.expr(x)]),
            AddrOf(_, _, x) => a("ref", vec![self.expr(x)]),
            Index(b, i, _) => a("idx", vec![self.expr(b), self.expr(i)]),
            Field(b, id) => a("field", vec![self.expr(b), J::s(id.to_string())]),
            Call(f, args) => {
                let mut v = vec![self.expr(f)];
                v.extend(args.iter().map(|x| self.expr(x)));
                a("call", v)
            }
            MethodCall(seg, recv, args, _) => {
                let did = self.tr.type_dependent_def_id(e.hir_id);
                let mut v = vec![
                    J::s(seg.ident.to_string()),
                    did.map(|d| J::s(def_str(self.cx, d))).unwrap_or(J::Null),
                    self.expr(recv),
                ];
                v.extend(args.iter().map(|x| self.expr(x)));
                a("mcall", v)
            }
            Tup(xs) => a("tup", xs.iter().map(|x| self.expr(x)).collect()),
            Array(xs) => a("array", xs.iter().map(|x| self.expr(x)).collect()),
            Cast(x, _) => {
                let t = self.tr.expr_ty(e);
                a("cast", vec![self.expr(x), J::s(crate::mirdump::ty_str(self.cx, t))])
            }
            Type(x, _) => self.expr(x),
            DropTemps(x) => self.expr(x),
            Use(x, _) => self.expr(x),
            If(c, t, el) => a(
                "if",
                vec![self.expr(c), self.expr(t), el.map(|x| self.expr(x)).unwrap_or(J::Null)],
            ),
            Let(l) => a("letexpr", vec![self.pat(l.pat), self.expr(l.init)]),
            Loop(b, _, src, _) => a("loop", vec![J::s(format!("{:?}", src)), self.block(b)]),
            Match(s, arms, src) => {
                let mut v = vec![J::s(format!("{:?}", src)), self.expr(s)];
                for arm in arms {
                    v.push(J::Arr(vec![
                        self.pat(arm.pat),
                        arm.guard.map(|g| self.expr(g)).unwrap_or(J::Null),
                        self.expr(arm.body),
                    ]));
                }
                a("match", v)
            }
            Closure(c) => {
                a("closure", vec![J::s(def_str(self.cx, c.def_id.to_def_id()))])
            }
            Block(b, _) => self.block(b),
            Assign(l, r, _) => a("assign", vec![self.expr(l), self.expr(r)]),
            AssignOp(op, l, r) => {
                a("assignop", vec![J::s(format!("{:?}", op.node)), self.expr(l), self.expr(r)])
            }
            Break(_, x) => a("break", vec![x.map(|x| self.expr(x)).unwrap_or(J::Null)]),
            Continue(_) => a("continue", vec![]),
            Ret(x) => a("ret", vec![x.map(|x| self.expr(x)).unwrap_or(J::Null)]),
            Struct(q, fields, tail) => {
                let mut v = vec![self.qpath(q, e.hir_id)];
                for f in fields {
                    v.push(J::Arr(vec![J::s(f.ident.to_string()), self.expr(f.expr)]));
                }
                if let hir::StructTailExpr::Base(b) = tail {
                    v.push(J::Arr(vec![J::s(".."), self.expr(b)]));
                }
                a("struct", v)
            }
            Repeat(x, _) => a("repeat", vec![self.expr(x)]),
            ConstBlock(_) => a("constblock", vec![]),
            _ => a("other", vec![]),
        };
        if self.lines {
            out
        } else {
            out
        }
    }
}
