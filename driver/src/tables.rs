//! Crate-level tables: cfg features, ADTs, impls, traits, const items.
use crate::hirdump;
use crate::json::J;
use crate::mirdump::{def_str, ty_str};
use crate::Cx;
use rustc_hir::def::DefKind;
use rustc_middle::ty;
use rustc_span::def_id::{DefId, LocalDefId};

pub fn features<'tcx>(cx: &Cx<'tcx>) -> J {
    let mut v = Vec::new();
    for (k, val) in cx.tcx.sess.config.iter() {
        if k.as_str() == "feature" {
            if let Some(val) = val {
                v.push(val.to_string());
            }
        }
    }
    v.sort();
    J::Arr(v.into_iter().map(J::s).collect())
}

fn eval_int<'tcx>(cx: &Cx<'tcx>, did: DefId) -> Option<String> {
    let tcx = cx.tcx;
    let t = tcx.type_of(did).instantiate_identity().skip_norm_wip();
    if !(t.is_integral() || t.is_bool()) {
        return None;
    }
    if tcx.generics_of(did).count() > 0 || tcx.generics_of(did).parent_count > 0 {
        // assoc consts of non-generic impls have parent_count == 0
    }
    match tcx.const_eval_poly(did) {
        Ok(cv) => cv.try_to_scalar_int().map(|si| {
            let bits = si.to_bits(si.size());
            if t.is_signed() {
                let sz = si.size().bits();
                let v = if sz == 128 {
                    bits as i128
                } else {
                    let sh = 128 - sz;
                    ((bits << sh) as i128) >> sh
                };
                format!("{}", v)
            } else {
                format!("{}", bits)
            }
        }),
        Err(_) => None,
    }
}

pub fn dump_const<'tcx>(cx: &Cx<'tcx>, ldid: LocalDefId) -> J {
    let tcx = cx.tcx;
    let did = ldid.to_def_id();
    let mut o = J::obj();
    o.set("path", J::s(def_str(cx, did)));
    o.set("name", J::s(tcx.opt_item_name(did).map(|s| s.to_string()).unwrap_or_default()));
    let t = tcx.type_of(did).instantiate_identity().skip_norm_wip();
    o.set("ty", J::s(ty_str(cx, t)));
    o.set("span", cx.span(tcx.def_span(did)));
    if let Some(p) = tcx.opt_parent(did) {
        o.set("parent", J::s(def_str(cx, p)));
        if matches!(tcx.def_kind(p), DefKind::Impl { .. }) {
            if let Some(tr) = tcx.impl_opt_trait_ref(p) {
                let tr = tr.instantiate_identity().skip_norm_wip();
                o.set("impl_trait", J::s(def_str(cx, tr.def_id)));
                o.set("impl_self", J::s(ty_str(cx, tr.self_ty())));
            }
        }
    }
    let generic = tcx.generics_of(did).count() > 0;
    if !generic {
        if let Some(v) = eval_int(cx, did) {
            o.set("val", J::s(v));
        }
    }
    o.set("hir", hirdump::body(cx, ldid));
    o
}

pub fn adts<'tcx>(cx: &Cx<'tcx>) -> J {
    let tcx = cx.tcx;
    let mut out = Vec::new();
    for ldid in tcx.hir_crate_items(()).definitions() {
        let did = ldid.to_def_id();
        if !matches!(tcx.def_kind(did), DefKind::Struct | DefKind::Enum | DefKind::Union) {
            continue;
        }
        let adt = tcx.adt_def(did);
        let mut o = J::obj();
        o.set("path", J::s(def_str(cx, did)));
        o.set("kind", J::s(if adt.is_enum() { "enum" } else { "struct" }));
        o.set("span", cx.span(tcx.def_span(did)));
        let mut vs = Vec::new();
        for v in adt.variants() {
            let mut fs = Vec::new();
            for f in &v.fields {
                let ft = tcx.type_of(f.did).instantiate_identity().skip_norm_wip();
                fs.push(
                    J::obj()
                        .with("name", J::s(f.name.to_string()))
                        .with("ty", J::s(ty_str(cx, ft)))
                        .with("pub", J::Bool(f.vis.is_public())),
                );
            }
            vs.push(J::obj().with("name", J::s(v.name.to_string())).with("fields", J::Arr(fs)));
        }
        o.set("variants", J::Arr(vs));
        out.push(o);
    }
    J::Arr(out)
}

pub fn impls<'tcx>(cx: &Cx<'tcx>) -> J {
    let tcx = cx.tcx;
    let mut out = Vec::new();
    for ldid in tcx.hir_crate_items(()).definitions() {
        let did = ldid.to_def_id();
        if !matches!(tcx.def_kind(did), DefKind::Impl { .. }) {
            continue;
        }
        let mut o = J::obj();
        o.set("path", J::s(def_str(cx, did)));
        o.set("derived", J::Bool(tcx.is_automatically_derived(did)));
        if let Some(tr) = tcx.impl_opt_trait_ref(did) {
            let tr = tr.instantiate_identity().skip_norm_wip();
            o.set("trait", J::s(def_str(cx, tr.def_id)));
            o.set("trait_full", J::s(ty_str_trait(cx, tr)));
            o.set("self", J::s(ty_str(cx, tr.self_ty())));
        } else {
            let st = tcx.type_of(did).instantiate_identity().skip_norm_wip();
            o.set("self", J::s(ty_str(cx, st)));
        }
        let mut items = Vec::new();
        for it in tcx.associated_items(did).in_definition_order() {
            let mut io = J::obj();
            io.set("name", J::s(it.name().to_string()));
            io.set("path", J::s(def_str(cx, it.def_id)));
            io.set("kind", J::s(format!("{:?}", it.kind).split(|c| c == ' ' || c == '{' || c == '(').next().unwrap_or("").to_string()));
            if let Some(tid) = it.trait_item_def_id() {
                io.set("trait_item", J::s(def_str(cx, tid)));
            }
            if matches!(tcx.def_kind(it.def_id), DefKind::AssocConst { .. }) {
                if let Some(v) = eval_int(cx, it.def_id) {
                    io.set("val", J::s(v));
                }
            }
            items.push(io);
        }
        o.set("items", J::Arr(items));
        out.push(o);
    }
    J::Arr(out)
}

fn ty_str_trait<'tcx>(cx: &Cx<'tcx>, tr: ty::TraitRef<'tcx>) -> String {
    use rustc_middle::ty::print::{with_crate_prefix, with_no_trimmed_paths, PrintTraitRefExt};
    let s = rustc_middle::ty::print::with_no_visible_paths!(with_crate_prefix!(with_no_trimmed_paths!(format!("{}", tr.print_only_trait_path()))));
    crate::mirdump::fix_crate(&cx.krate, s)
}

pub fn traits<'tcx>(cx: &Cx<'tcx>) -> J {
    let tcx = cx.tcx;
    let mut out = Vec::new();
    for ldid in tcx.hir_crate_items(()).definitions() {
        let did = ldid.to_def_id();
        if !matches!(tcx.def_kind(did), DefKind::Trait) {
            continue;
        }
        let mut o = J::obj();
        o.set("path", J::s(def_str(cx, did)));
        let mut items = Vec::new();
        for it in tcx.associated_items(did).in_definition_order() {
            items.push(
                J::obj()
                    .with("name", J::s(it.name().to_string()))
                    .with("path", J::s(def_str(cx, it.def_id)))
                    .with("has_default", J::Bool(it.defaultness(tcx).has_value())),
            );
        }
        o.set("items", J::Arr(items));
        out.push(o);
    }
    J::Arr(out)
}
