//! MIR-lite fact dump for one local body.
use crate::json::J;
use crate::Cx;
use rustc_hir::def::DefKind;
use rustc_middle::mir::{
    AggregateKind, AssertKind, BinOp, Body, Const, ConstValue, Operand, Place, ProjectionElem,
    Rvalue, StatementKind, TerminatorKind, UnwindAction, VarDebugInfoContents,
};
use rustc_middle::ty::print::{with_crate_prefix, with_no_trimmed_paths, with_no_visible_paths};
use rustc_middle::ty::{self, Instance, Ty, TyCtxt, TypingEnv};
use rustc_span::def_id::{DefId, LocalDefId};

pub fn fix_crate(krate: &str, s: String) -> String {
    // with_crate_prefix prints local items as `crate::…`; substitute the crate name.
    let mut out = String::with_capacity(s.len() + 16);
    let b = s.as_bytes();
    let mut i = 0;
    while i < b.len() {
        if s[i..].starts_with("crate::")
            && (i == 0 || !(b[i - 1].is_ascii_alphanumeric() || b[i - 1] == b'_'))
        {
            out.push_str(krate);
            out.push_str("::");
            i += 7;
        } else {
            let ch = s[i..].chars().next().unwrap();
            out.push(ch);
            i += ch.len_utf8();
        }
    }
    out
}

pub fn ty_str<'tcx>(cx: &Cx<'tcx>, t: Ty<'tcx>) -> String {
    let s = with_no_visible_paths!(with_crate_prefix!(with_no_trimmed_paths!(format!("{}", t))));
    fix_crate(&cx.krate, s)
}

pub fn def_str<'tcx>(cx: &Cx<'tcx>, d: DefId) -> String {
    let s = with_no_visible_paths!(with_crate_prefix!(with_no_trimmed_paths!(cx.tcx.def_path_str(d))));
    fix_crate(&cx.krate, s)
}

pub fn def_str_args<'tcx>(cx: &Cx<'tcx>, d: DefId, args: ty::GenericArgsRef<'tcx>) -> String {
    let s = with_no_visible_paths!(with_crate_prefix!(with_no_trimmed_paths!(cx.tcx.def_path_str_with_args(d, args))));
    fix_crate(&cx.krate, s)
}

fn is_derived<'tcx>(tcx: TyCtxt<'tcx>, did: DefId) -> bool {
    // a body is "derived" if it (or an ancestor impl) carries #[automatically_derived]
    let mut cur = did;
    loop {
        if matches!(tcx.def_kind(cur), DefKind::Impl { .. }) {
            return tcx.is_automatically_derived(cur);
        }
        match tcx.opt_parent(cur) {
            Some(p) => cur = p,
            None => return false,
        }
    }
}

pub fn fn_header<'tcx>(cx: &Cx<'tcx>, ldid: LocalDefId) -> J {
    let tcx = cx.tcx;
    let did = ldid.to_def_id();
    let kind = tcx.def_kind(did);
    let mut f = J::obj();
    f.set("path", J::s(def_str(cx, did)));
    f.set("name", J::s(tcx.opt_item_name(did).map(|s| s.to_string()).unwrap_or_default()));
    f.set(
        "kind",
        J::s(match kind {
            DefKind::Fn => "fn",
            DefKind::AssocFn => "method",
            DefKind::Closure => "closure",
            _ => "other",
        }),
    );
    let sp = tcx.def_span(did);
    f.set("span", cx.span(tcx.hir_span(tcx.local_def_id_to_hir_id(ldid))));
    f.set("derived", J::Bool(is_derived(tcx, did) || sp.from_expansion()));
    if let Some(p) = tcx.opt_parent(did) {
        f.set("parent", J::s(def_str(cx, p)));
        if matches!(tcx.def_kind(p), DefKind::Impl { .. }) {
            if let Some(tr) = tcx.impl_opt_trait_ref(p) {
                let tr = tr.instantiate_identity().skip_norm_wip();
                f.set("impl_trait", J::s(def_str(cx, tr.def_id)));
                f.set("impl_self", J::s(ty_str(cx, tr.self_ty())));
            } else {
                let st = tcx.type_of(p).instantiate_identity().skip_norm_wip();
                f.set("impl_self", J::s(ty_str(cx, st)));
            }
        }
        if matches!(tcx.def_kind(p), DefKind::Trait) {
            f.set("in_trait", J::s(def_str(cx, p)));
        }
    }
    if matches!(kind, DefKind::Fn | DefKind::AssocFn) {
        f.set("pub", J::Bool(tcx.visibility(did).is_public()));
        let sig = tcx.fn_sig(did).instantiate_identity().skip_norm_wip().skip_binder();
        f.set("inputs", J::Arr(sig.inputs().iter().map(|t| J::s(ty_str(cx, *t))).collect()));
        f.set("output", J::s(ty_str(cx, sig.output())));
        let g = tcx.generics_of(did);
        let mut gs = Vec::new();
        for i in 0..g.count() {
            let p = g.param_at(i, tcx);
            gs.push(J::s(p.name.to_string()));
        }
        f.set("generics", J::Arr(gs));
    }
    f
}

pub fn dump_fn<'tcx>(cx: &Cx<'tcx>, ldid: LocalDefId, big: usize) -> J {
    let tcx = cx.tcx;
    let did = ldid.to_def_id();
    let mut f = fn_header(cx, ldid);
    let derived = is_derived(tcx, did) || tcx.def_span(did).from_expansion();
    if derived {
        f.set("skipped", J::Bool(true));
        return f;
    }
    let body: &Body<'tcx> = tcx.optimized_mir(did);
    let nstmts: usize = body.basic_blocks.iter().map(|b| b.statements.len() + 1).sum();
    let full = std::env::var("SWV_FULL").unwrap_or_default();
    let name = tcx.opt_item_name(did).map(|s| s.to_string()).unwrap_or_default();
    let compact = nstmts > big && !full.split(',').any(|n| !n.is_empty() && n == name);
    f.set("nstmts", J::Int(nstmts as i128));
    f.set("compact", J::Bool(compact));
    f.set("arg_count", J::Int(body.arg_count as i128));
    f.set("hir", crate::hirdump::body(cx, ldid));
    let d = Dumper { cx, body, env: TypingEnv::post_analysis(tcx, did), did };
    // locals
    let mut names: Vec<Option<String>> = vec![None; body.local_decls.len()];
    for v in &body.var_debug_info {
        if let VarDebugInfoContents::Place(p) = &v.value {
            if p.projection.is_empty() {
                names[p.local.as_usize()] = Some(v.name.to_string());
            }
        }
    }
    if !compact {
        let mut locals = Vec::new();
        for (l, decl) in body.local_decls.iter_enumerated() {
            let mut o = J::obj();
            o.set("ty", J::s(ty_str(cx, decl.ty)));
            if let Some(n) = &names[l.as_usize()] {
                o.set("name", J::s(n.clone()));
            }
            locals.push(o);
        }
        f.set("locals", J::Arr(locals));
    } else {
        let mut locals = Vec::new();
        for (l, decl) in body.local_decls.iter_enumerated().take(body.arg_count + 1) {
            let mut o = J::obj();
            o.set("ty", J::s(ty_str(cx, decl.ty)));
            if let Some(n) = &names[l.as_usize()] {
                o.set("name", J::s(n.clone()));
            }
            locals.push(o);
        }
        f.set("locals", J::Arr(locals));
    }
    if compact {
        // summary only: distinct callees with counts, assert kinds with counts
        let mut calls: Vec<(String, J, usize, J)> = Vec::new();
        let mut asserts: Vec<(String, usize)> = Vec::new();
        for (_bb, data) in body.basic_blocks.iter_enumerated() {
            if data.is_cleanup {
                continue;
            }
            let term = data.terminator();
            match &term.kind {
                TerminatorKind::Call { func, .. } => {
                    let c = d.callee(func);
                    let mut key = String::new();
                    c.write(&mut key);
                    if let Some(e) = calls.iter_mut().find(|e| e.0 == key) {
                        e.2 += 1;
                    } else {
                        calls.push((key, c, 1, cx.line(term.source_info.span)));
                    }
                }
                TerminatorKind::Assert { msg, .. } => {
                    let k = format!("{:?}", std::mem::discriminant(&**msg));
                    let k = match &**msg {
                        AssertKind::BoundsCheck { .. } => "BoundsCheck".to_string(),
                        AssertKind::Overflow(..) => "Overflow".to_string(),
                        AssertKind::MisalignedPointerDereference { .. } => "MisalignedPtr".to_string(),
                        AssertKind::NullPointerDereference => "NullPtr".to_string(),
                        _ => k,
                    };
                    if let Some(e) = asserts.iter_mut().find(|e| e.0 == k) {
                        e.1 += 1;
                    } else {
                        asserts.push((k, 1));
                    }
                }
                _ => {}
            }
        }
        f.set(
            "callsum",
            J::Arr(
                calls
                    .into_iter()
                    .map(|(_, c, n, line)| {
                        J::obj().with("f", c).with("n", J::Int(n as i128)).with("line", line)
                    })
                    .collect(),
            ),
        );
        f.set(
            "assertsum",
            J::Arr(
                asserts
                    .into_iter()
                    .map(|(k, n)| J::Arr(vec![J::s(k), J::Int(n as i128)]))
                    .collect(),
            ),
        );
        return f;
    }
    // blocks
    let doms = body.basic_blocks.dominators();
    let mut blocks = Vec::new();
    let mut backedges = Vec::new();
    for (bb, data) in body.basic_blocks.iter_enumerated() {
        let mut b = J::obj();
        if data.is_cleanup {
            b.set("cleanup", J::Bool(true));
        }
        let mut stmts = Vec::new();
        if !compact {
            for st in &data.statements {
                match &st.kind {
                    StatementKind::Assign(bx) => {
                        let (pl, rv) = &**bx;
                        stmts.push(
                            J::obj()
                                .with("k", J::s("assign"))
                                .with("place", d.place(pl))
                                .with("rv", d.rvalue(rv))
                                .with("line", cx.line(st.source_info.span)),
                        );
                    }
                    StatementKind::SetDiscriminant { place, variant_index } => {
                        stmts.push(
                            J::obj()
                                .with("k", J::s("setdiscr"))
                                .with("place", d.place(place))
                                .with("variant", J::Int(variant_index.as_usize() as i128)),
                        );
                    }
                    StatementKind::StorageDead(l) => {
                        stmts.push(
                            J::obj().with("k", J::s("dead")).with("l", J::Int(l.as_usize() as i128)),
                        );
                    }
                    _ => {}
                }
            }
        }
        b.set("stmts", J::Arr(stmts));
        let term = data.terminator();
        b.set("term", d.terminator(term, compact));
        for succ in term.successors() {
            if doms.dominates(succ, bb) {
                backedges.push(J::Arr(vec![
                    J::Int(bb.as_usize() as i128),
                    J::Int(succ.as_usize() as i128),
                ]));
            }
        }
        blocks.push(b);
    }
    f.set("blocks", J::Arr(blocks));
    let mut proms = Vec::new();
    for pb in tcx.promoted_mir(did).iter() {
        let pd = Dumper { cx, body: pb, env: TypingEnv::post_analysis(tcx, did), did };
        let mut items = Vec::new();
        for data in pb.basic_blocks.iter() {
            for st in &data.statements {
                if let StatementKind::Assign(bx) = &st.kind {
                    items.push(pd.rvalue(&bx.1));
                }
            }
            if let TerminatorKind::Call { func, args, .. } = &data.terminator().kind {
                items.push(
                    J::obj()
                        .with("k", J::s("call"))
                        .with("f", pd.callee(func))
                        .with("args", J::Arr(args.iter().map(|a| pd.operand(&a.node)).collect())),
                );
            }
        }
        proms.push(J::Arr(items));
    }
    f.set("promoted", J::Arr(proms));
    f.set("backedges", J::Arr(backedges));
    f
}

struct Dumper<'a, 'tcx> {
    cx: &'a Cx<'tcx>,
    body: &'a Body<'tcx>,
    env: TypingEnv<'tcx>,
    did: DefId,
}

impl<'a, 'tcx> Dumper<'a, 'tcx> {
    fn place(&self, p: &Place<'tcx>) -> J {
        let tcx = self.cx.tcx;
        let mut proj = Vec::new();
        let mut pty = rustc_middle::mir::PlaceTy::from_ty(self.body.local_decls[p.local].ty);
        for elem in p.projection.iter() {
            match elem {
                ProjectionElem::Deref => proj.push(J::s("*")),
                ProjectionElem::Field(fidx, _) => {
                    let mut o = J::obj();
                    o.set("f", J::Int(fidx.as_usize() as i128));
                    match pty.ty.kind() {
                        ty::Adt(adt, _) => {
                            let vidx = pty.variant_index.unwrap_or(rustc_abi::FIRST_VARIANT);
                            let v = adt.variant(vidx);
                            if let Some(fd) = v.fields.get(fidx) {
                                o.set("n", J::s(fd.name.to_string()));
                            }
                            o.set("adt", J::s(def_str(self.cx, adt.did())));
                            if adt.is_enum() {
                                o.set("v", J::s(v.name.to_string()));
                            }
                        }
                        ty::Closure(..) => {
                            o.set("adt", J::s("{closure}"));
                        }
                        ty::Tuple(..) => {
                            o.set("adt", J::s("()"));
                        }
                        _ => {}
                    }
                    proj.push(o);
                }
                ProjectionElem::Index(l) => {
                    proj.push(J::obj().with("i", J::Int(l.as_usize() as i128)));
                }
                ProjectionElem::ConstantIndex { offset, min_length, from_end } => {
                    proj.push(
                        J::obj()
                            .with("ci", J::Int(offset as i128))
                            .with("min", J::Int(min_length as i128))
                            .with("from_end", J::Bool(from_end)),
                    );
                }
                ProjectionElem::Subslice { from, to, from_end } => {
                    proj.push(
                        J::obj()
                            .with("sub", J::Arr(vec![J::Int(from as i128), J::Int(to as i128)]))
                            .with("from_end", J::Bool(from_end)),
                    );
                }
                ProjectionElem::Downcast(name, vidx) => {
                    proj.push(
                        J::obj()
                            .with("dc", J::Int(vidx.as_usize() as i128))
                            .with("n", J::s(name.map(|s| s.to_string()).unwrap_or_default())),
                    );
                }
                _ => proj.push(J::s("?")),
            }
            pty = pty.projection_ty(tcx, elem);
        }
        J::obj().with("l", J::Int(p.local.as_usize() as i128)).with("p", J::Arr(proj))
    }

    fn constant(&self, c: &Const<'tcx>) -> J {
        let tcx = self.cx.tcx;
        let mut o = J::obj();
        let t = c.ty();
        o.set("ty", J::s(ty_str(self.cx, t)));
        match t.kind() {
            ty::FnDef(d, args) => {
                o.set("fn", J::s(def_str(self.cx, *d)));
                o.set("fn_args", J::s(def_str_args(self.cx, *d, args)));
                return o;
            }
            _ => {}
        }
        match c {
            Const::Unevaluated(uv, _) => {
                o.set("def", J::s(def_str(self.cx, uv.def)));
                if let Some(p) = uv.promoted {
                    o.set("promoted", J::Int(p.as_usize() as i128));
                }
                if !uv.args.is_empty() {
                    o.set("def_args", J::s(def_str_args(self.cx, uv.def, uv.args)));
                }
            }
            Const::Ty(_, ct) => {
                if let ty::ConstKind::Unevaluated(uv) = ct.kind() {
                    o.set("def", J::s(def_str(self.cx, uv.def)));
                }
            }
            Const::Val(..) => {}
        }
        let scalar_ok = t.is_integral() || t.is_bool() || t.is_char();
        if scalar_ok {
            if let Some(si) = c.try_eval_scalar_int(tcx, self.env) {
                let bits = si.to_bits(si.size());
                if t.is_signed() {
                    let sz = si.size().bits();
                    let v = if sz == 128 {
                        bits as i128
                    } else {
                        let shift = 128 - sz;
                        ((bits << shift) as i128) >> shift
                    };
                    o.set("val", J::s(format!("{}", v)));
                } else {
                    o.set("val", J::s(format!("{}", bits)));
                }
            }
        } else if let Const::Val(ConstValue::Slice { .. }, _) = c {
            if let ty::Ref(_, inner, _) = t.kind() {
                if inner.is_str() {
                    let s = with_no_trimmed_paths!(format!("{}", c));
                    o.set("str", J::s(s));
                }
            }
        }
        o
    }

    fn operand(&self, op: &Operand<'tcx>) -> J {
        match op {
            Operand::Copy(p) => J::obj().with("cp", self.place(p)),
            Operand::Move(p) => J::obj().with("mv", self.place(p)),
            Operand::Constant(c) => J::obj().with("c", self.constant(&c.const_)),
            #[allow(unreachable_patterns)]
            _ => J::obj().with("c", J::obj().with("ty", J::s("?"))),
        }
    }

    fn rvalue(&self, rv: &Rvalue<'tcx>) -> J {
        let mut o = J::obj();
        match rv {
            Rvalue::Use(op, ..) => {
                o.set("k", J::s("use"));
                o.set("a", self.operand(op));
            }
            Rvalue::CopyForDeref(p) => {
                o.set("k", J::s("use"));
                o.set("a", J::obj().with("cp", self.place(p)));
            }
            Rvalue::Ref(_, bk, p) => {
                o.set("k", J::s("ref"));
                o.set("mut", J::Bool(matches!(bk, rustc_middle::mir::BorrowKind::Mut { .. })));
                o.set("place", self.place(p));
            }
            Rvalue::RawPtr(_, p) => {
                o.set("k", J::s("rawptr"));
                o.set("place", self.place(p));
            }
            Rvalue::BinaryOp(op, bx) => {
                o.set("k", J::s("bin"));
                o.set("op", J::s(format!("{:?}", op)));
                o.set("a", self.operand(&bx.0));
                o.set("b", self.operand(&bx.1));
            }
            Rvalue::UnaryOp(op, a) => {
                o.set("k", J::s("un"));
                o.set("op", J::s(format!("{:?}", op)));
                o.set("a", self.operand(a));
            }
            Rvalue::Cast(ck, a, t) => {
                o.set("k", J::s("cast"));
                o.set("ck", J::s(format!("{:?}", ck)));
                o.set("a", self.operand(a));
                o.set("from", J::s(ty_str(self.cx, a.ty(self.body, self.cx.tcx))));
                o.set("to", J::s(ty_str(self.cx, *t)));
            }
            Rvalue::Discriminant(p) => {
                o.set("k", J::s("discr"));
                o.set("place", self.place(p));
            }
            Rvalue::Repeat(a, _) => {
                o.set("k", J::s("repeat"));
                o.set("a", self.operand(a));
            }
            Rvalue::Aggregate(kind, ops) => {
                o.set("k", J::s("agg"));
                match &**kind {
                    AggregateKind::Array(_) => {
                        o.set("agg", J::s("array"));
                    }
                    AggregateKind::Tuple => {
                        o.set("agg", J::s("tuple"));
                    }
                    AggregateKind::Adt(did, vidx, _, _, _) => {
                        o.set("agg", J::s("adt"));
                        o.set("adt", J::s(def_str(self.cx, *did)));
                        let adt = self.cx.tcx.adt_def(*did);
                        let v = adt.variant(*vidx);
                        o.set("variant", J::s(v.name.to_string()));
                        o.set(
                            "fields",
                            J::Arr(v.fields.iter().map(|f| J::s(f.name.to_string())).collect()),
                        );
                    }
                    AggregateKind::Closure(did, _) => {
                        o.set("agg", J::s("closure"));
                        o.set("closure", J::s(def_str(self.cx, *did)));
                    }
                    AggregateKind::RawPtr(..) => {
                        o.set("agg", J::s("rawptr"));
                    }
                    _ => {
                        o.set("agg", J::s("other"));
                    }
                }
                o.set("ops", J::Arr(ops.iter().map(|x| self.operand(x)).collect()));
            }
            other => {
                o.set("k", J::s("other"));
                o.set("s", J::s(format!("{:?}", other)));
            }
        }
        o
    }

    fn callee(&self, func: &Operand<'tcx>) -> J {
        let tcx = self.cx.tcx;
        let mut o = J::obj();
        let fty = func.ty(self.body, tcx);
        match *fty.kind() {
            ty::FnDef(def_id, args) => {
                o.set("path", J::s(def_str(self.cx, def_id)));
                o.set("full", J::s(def_str_args(self.cx, def_id, args)));
                o.set("name", J::s(tcx.item_name(def_id).to_string()));
                let mut ga = Vec::new();
                for a in args.iter() {
                    if let Some(t) = a.as_type() {
                        ga.push(J::s(ty_str(self.cx, t)));
                    }
                }
                o.set("targs", J::Arr(ga));
                if let Some(tr) = tcx.trait_of_assoc(def_id) {
                    o.set("trait", J::s(def_str(self.cx, tr)));
                    if args.len() > 0 {
                        if let Some(t) = args[0].as_type() {
                            o.set("self_ty", J::s(ty_str(self.cx, t)));
                        }
                    }
                } else if let Some(p) = tcx.opt_parent(def_id) {
                    if matches!(tcx.def_kind(p), DefKind::Impl { .. }) {
                        let st = tcx.type_of(p).instantiate(tcx, args).skip_norm_wip();
                        o.set("self_ty", J::s(ty_str(self.cx, st)));
                    }
                }
                let sig = tcx.fn_sig(def_id).skip_binder().skip_binder();
                if sig.output().is_never() {
                    o.set("diverges", J::Bool(true));
                }
                match Instance::try_resolve(tcx, self.env, def_id, args) {
                    Ok(Some(inst)) => {
                        let rd = inst.def_id();
                        o.set("resolved", J::s(def_str(self.cx, rd)));
                        o.set("resolved_full", J::s(def_str_args(self.cx, rd, inst.args)));
                        o.set("local", J::Bool(rd.is_local()));
                        let ik = format!("{:?}", inst.def);
                        let ik = ik.split('(').next().unwrap_or("").to_string();
                        o.set("ikind", J::s(ik));
                        if rd != def_id || tcx.trait_of_assoc(def_id).is_none() {
                            o.set("is_resolved", J::Bool(true));
                        } else {
                            // a trait method resolved to itself = default method body or unresolved
                            o.set("is_resolved", J::Bool(tcx.trait_of_assoc(rd).is_none()
                                || tcx.defaultness(rd).has_value()
                                    && !matches!(inst.def, ty::InstanceKind::Virtual(..))));
                        }
                    }
                    _ => {
                        o.set("is_resolved", J::Bool(false));
                        o.set("local", J::Bool(def_id.is_local()));
                    }
                }
            }
            _ => {
                o.set("indirect", J::Bool(true));
                o.set("op", self.operand(func));
                o.set("ty", J::s(ty_str(self.cx, fty)));
            }
        }
        o
    }

    fn terminator(&self, term: &rustc_middle::mir::Terminator<'tcx>, compact: bool) -> J {
        let mut o = J::obj();
        let bbj = |b: rustc_middle::mir::BasicBlock| J::Int(b.as_usize() as i128);
        o.set("line", self.cx.line(term.source_info.span));
        if term.source_info.span.from_expansion() {
            o.set("exp", J::Bool(true));
            // name of the outermost macro, e.g. assert / ensure / vec / panic
            let ed = term.source_info.span.ctxt().outer_expn_data();
            if let rustc_span::ExpnKind::Macro(_, name) = ed.kind {
                o.set("macro", J::s(name.to_string()));
            }
        }
        match &term.kind {
            TerminatorKind::Goto { target } => {
                o.set("k", J::s("goto"));
                o.set("target", bbj(*target));
            }
            TerminatorKind::SwitchInt { discr, targets } => {
                o.set("k", J::s("switch"));
                o.set("op", self.operand(discr));
                o.set("ty", J::s(ty_str(self.cx, discr.ty(self.body, self.cx.tcx))));
                let mut ts = Vec::new();
                for (v, t) in targets.iter() {
                    ts.push(J::Arr(vec![J::s(format!("{}", v)), bbj(t)]));
                }
                o.set("targets", J::Arr(ts));
                o.set("otherwise", bbj(targets.otherwise()));
            }
            TerminatorKind::Return => {
                o.set("k", J::s("return"));
            }
            TerminatorKind::Unreachable => {
                o.set("k", J::s("unreachable"));
            }
            TerminatorKind::UnwindResume | TerminatorKind::UnwindTerminate(_) => {
                o.set("k", J::s("unwind"));
            }
            TerminatorKind::Drop { place, target, .. } => {
                o.set("k", J::s("drop"));
                if !compact {
                    o.set("place", self.place(place));
                }
                o.set("target", bbj(*target));
            }
            TerminatorKind::Call { func, args, destination, target, unwind, .. } => {
                o.set("k", J::s("call"));
                o.set("f", self.callee(func));
                if !compact {
                    o.set("args", J::Arr(args.iter().map(|a| self.operand(&a.node)).collect()));
                    o.set("dest", self.place(destination));
                }
                o.set(
                    "dest_ty",
                    J::s(ty_str(self.cx, destination.ty(self.body, self.cx.tcx).ty)),
                );
                match target {
                    Some(t) => o.set("target", bbj(*t)),
                    None => o.set("target", J::Null),
                };
                if let UnwindAction::Cleanup(c) = unwind {
                    o.set("cleanup", bbj(*c));
                }
            }
            TerminatorKind::TailCall { func, .. } => {
                o.set("k", J::s("tailcall"));
                o.set("f", self.callee(func));
            }
            TerminatorKind::Assert { cond, expected, msg, target, .. } => {
                o.set("k", J::s("assert"));
                o.set("cond", self.operand(cond));
                o.set("expected", J::Bool(*expected));
                let (kind, extra): (&str, Vec<J>) = match &**msg {
                    AssertKind::BoundsCheck { len, index } => {
                        ("BoundsCheck", vec![self.operand(len), self.operand(index)])
                    }
                    AssertKind::Overflow(op, a, b) => {
                        let k = match op {
                            BinOp::Add => "Overflow.Add",
                            BinOp::Sub => "Overflow.Sub",
                            BinOp::Mul => "Overflow.Mul",
                            BinOp::Shl => "Overflow.Shl",
                            BinOp::Shr => "Overflow.Shr",
                            _ => "Overflow.Other",
                        };
                        (k, vec![self.operand(a), self.operand(b)])
                    }
                    AssertKind::OverflowNeg(a) => ("OverflowNeg", vec![self.operand(a)]),
                    AssertKind::DivisionByZero(a) => ("DivisionByZero", vec![self.operand(a)]),
                    AssertKind::RemainderByZero(a) => ("RemainderByZero", vec![self.operand(a)]),
                    AssertKind::MisalignedPointerDereference { .. } => ("MisalignedPtr", vec![]),
                    AssertKind::NullPointerDereference => ("NullPtr", vec![]),
                    AssertKind::InvalidEnumConstruction(_) => ("InvalidEnum", vec![]),
                    _ => ("Other", vec![]),
                };
                o.set("msg", J::s(kind));
                if !compact {
                    o.set("ops", J::Arr(extra));
                }
                o.set("target", bbj(*target));
            }
            TerminatorKind::FalseEdge { real_target, .. } => {
                o.set("k", J::s("goto"));
                o.set("target", bbj(*real_target));
            }
            TerminatorKind::FalseUnwind { real_target, .. } => {
                o.set("k", J::s("goto"));
                o.set("target", bbj(*real_target));
            }
            other => {
                o.set("k", J::s("other"));
                o.set("s", J::s(format!("{:?}", other)));
            }
        }
        let _ = self.did;
        o
    }
}
