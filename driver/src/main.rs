//! swv-driver: a rustc_private compiler driver that extracts facts (MIR-lite, HIR-lite, crate
//! tables) from every local body of the crates of iosis-tech/swiftness, for the rule engine in
//! /verif/rules. It never executes repository code; it only inspects the type-checked program.
//!
//! Invoked as RUSTC_WORKSPACE_WRAPPER / RUSTC_WRAPPER: argv[1] is the real rustc path and is
//! dropped. Facts are written only when SWV_OUT is set and CARGO_MANIFEST_DIR lies under one of
//! the SWV_ROOTS (colon separated); otherwise the driver behaves as plain rustc.
#![feature(rustc_private)]
#![allow(clippy::all)]

extern crate rustc_abi;
extern crate rustc_ast;
extern crate rustc_driver;
extern crate rustc_hir;
extern crate rustc_interface;
extern crate rustc_middle;
extern crate rustc_session;
extern crate rustc_span;

mod hirdump;
mod json;
mod mirdump;
mod tables;

use json::J;
use rustc_driver::{Callbacks, Compilation};
use rustc_hir::def::DefKind;
use rustc_interface::interface;
use rustc_middle::ty::TyCtxt;
use rustc_span::def_id::{DefId, LOCAL_CRATE};
use rustc_span::Span;

pub struct Cx<'tcx> {
    pub tcx: TyCtxt<'tcx>,
    pub krate: String,
}

impl<'tcx> Cx<'tcx> {
    /// crate-qualified def path (def_path_str omits the crate name for local items)
    pub fn path(&self, did: DefId) -> String {
        let s = self.tcx.def_path_str(did);
        if did.is_local() {
            format!("{}::{}", self.krate, s)
        } else {
            s
        }
    }
    pub fn span(&self, sp: Span) -> J {
        let sm = self.tcx.sess.source_map();
        let lo = sm.lookup_char_pos(sp.lo());
        let hi = sm.lookup_char_pos(sp.hi());
        let file = match &lo.file.name {
            rustc_span::FileName::Real(r) => match r.local_path() {
                Some(p) => p.display().to_string(),
                None => format!("{:?}", lo.file.name),
            },
            other => format!("{:?}", other),
        };
        J::obj()
            .with("file", J::s(file))
            .with("lo", J::Int(lo.line as i128))
            .with("hi", J::Int(hi.line as i128))
            .with("exp", J::Bool(sp.from_expansion()))
    }
    pub fn line(&self, sp: Span) -> J {
        // the line of the outermost (user-written) call site for macro-expanded spans
        let sp2 = sp.source_callsite();
        let sm = self.tcx.sess.source_map();
        J::Int(sm.lookup_char_pos(sp2.lo()).line as i128)
    }
}

struct Extract;

impl Callbacks for Extract {
    fn after_analysis<'tcx>(&mut self, _c: &interface::Compiler, tcx: TyCtxt<'tcx>) -> Compilation {
        let out_dir = std::env::var("SWV_OUT").expect("SWV_OUT");
        let krate = tcx.crate_name(LOCAL_CRATE).to_string();
        let cx = Cx { tcx, krate: krate.clone() };
        let big: usize =
            std::env::var("SWV_BIG").ok().and_then(|s| s.parse().ok()).unwrap_or(4000);

        let mut fns = Vec::new();
        let mut consts = Vec::new();
        for ldid in tcx.hir_body_owners() {
            let did = ldid.to_def_id();
            let kind = tcx.def_kind(did);
            match kind {
                DefKind::Fn | DefKind::AssocFn | DefKind::Closure => {
                    fns.push(mirdump::dump_fn(&cx, ldid, big));
                }
                DefKind::Const { .. } | DefKind::AssocConst { .. } | DefKind::Static { .. } => {
                    consts.push(tables::dump_const(&cx, ldid));
                }
                _ => {}
            }
        }
        let mut root = J::obj();
        root.set("crate", J::s(krate.clone()));
        root.set("run_id", J::s(std::env::var("SWV_RUN_ID").unwrap_or_default()));
        root.set("config", J::s(std::env::var("SWV_CONFIG").unwrap_or_default()));
        root.set("features", tables::features(&cx));
        root.set("fns", J::Arr(fns));
        root.set("consts", J::Arr(consts));
        root.set("adts", tables::adts(&cx));
        root.set("impls", tables::impls(&cx));
        root.set("traits", tables::traits(&cx));
        let mut s = String::new();
        root.write(&mut s);
        let path = format!("{}/{}.json", out_dir, krate);
        let tmp = format!("{}.tmp.{}", path, std::process::id());
        std::fs::write(&tmp, s).expect("write facts");
        std::fs::rename(&tmp, &path).expect("rename facts");
        Compilation::Continue
    }
}

struct Plain;
impl Callbacks for Plain {}

fn main() {
    let mut args: Vec<String> = std::env::args().collect();
    // wrapper mode: argv[1] is the path of the real rustc
    if args.len() > 1 && (args[1].ends_with("rustc") || args[1].contains("/rustc")) {
        args.remove(1);
    }
    let manifest = std::env::var("CARGO_MANIFEST_DIR").unwrap_or_default();
    let roots = std::env::var("SWV_ROOTS").unwrap_or_default();
    let active = std::env::var("SWV_OUT").is_ok()
        && !manifest.is_empty()
        && roots.split(':').any(|r| !r.is_empty() && manifest.starts_with(r))
        // build scripts and proc-macro probes: only analyse real lib/bin crates
        && !args.iter().any(|a| a == "build_script_build")
        && !args.iter().any(|a| a == "-vV" || a == "--version" || a.starts_with("--print"));
    if active {
        rustc_driver::run_compiler(&args, &mut Extract);
    } else {
        rustc_driver::run_compiler(&args, &mut Plain);
    }
}
